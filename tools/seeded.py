#!/venv/bin/python
"""Confirm and run the seeded changes kept under /verif/seeded/<id>/ (patch.diff, demo.py, meta.json).

  seeded.py verify <id> [--checks C03,C04] [--tier quick] : in a scratch git worktree of /repo (outside /repo and
      /verif, removed afterwards): apply the patch, run the repository's test suite, run the demonstration with and
      without the patch, then run the named corsim checks against the patched copy (--repo) and record which clauses
      fire. Results are merged into meta.json.
  seeded.py all [--tier quick] : verify every seeded change with the checks named in its meta.json.
"""
import argparse
import json
import os
import re
import shutil
import subprocess
import sys
import tempfile
import time

VERIF = os.path.dirname(os.path.dirname(os.path.abspath(__file__)))
SEEDED = os.path.join(VERIF, "seeded")
PY = "/venv/bin/python"


def sh(cmd, cwd=None, env=None, timeout=3600):
    p = subprocess.run(cmd, cwd=cwd, env=env, capture_output=True, text=True, timeout=timeout)
    return p.returncode, (p.stdout + p.stderr)


def verify(sid, checks, tier, seeds):
    d = os.path.join(SEEDED, sid)
    meta_path = os.path.join(d, "meta.json")
    meta = json.load(open(meta_path)) if os.path.exists(meta_path) else {}
    checks = checks or meta.get("checks_expected") or [meta.get("property")]
    base = tempfile.mkdtemp(prefix="corsim-seeded-")
    wt = os.path.join(base, "wt-" + str(meta.get("property", sid.split("-")[0])))  # demos may assert on this name
    res = {"verified_at_repo_commit": sh(["git", "-C", "/repo", "rev-parse", "--short", "HEAD"])[1].strip()}
    try:
        rc, out = sh(["git", "-C", "/repo", "worktree", "add", "--detach", wt, "HEAD"])
        if rc:
            raise RuntimeError(out)
        env = dict(os.environ, PYTHONPATH=wt, PYTHONDONTWRITEBYTECODE="1")
        os.makedirs(os.path.join(wt, "SEEDED", "m"))
        shutil.copy(os.path.join(d, "demo.py"), os.path.join(wt, "SEEDED", "m", "demo.py"))
        rc0, out0 = sh([PY, "SEEDED/m/demo.py"], cwd=wt, env=env, timeout=900)
        res["demo_without_patch"] = "passes" if rc0 == 0 else f"FAILS rc={rc0}: {out0[-300:]}"
        rc, out = sh(["git", "apply", os.path.join(d, "patch.diff")], cwd=wt)
        if rc:
            raise RuntimeError("patch does not apply: " + out)
        rct, outt = sh([PY, "-m", "pytest", "-q", "-p", "no:cacheprovider", "--timeout=900"], cwd=wt, env=env)
        res["test_suite_with_patch"] = outt.strip().split("\n")[-1]
        rc1, out1 = sh([PY, "SEEDED/m/demo.py"], cwd=wt, env=env, timeout=900)
        res["demo_with_patch"] = "fails" if rc1 != 0 else "PASSES (demo does not detect the change)"
        caught = {}
        for pid in checks:
            for seed in seeds:
                t0 = time.monotonic()
                envc = dict(os.environ, VERIF_SEED=str(seed), PYTHONHASHSEED="0")
                rcc, outc = sh([PY, "-m", "corsim", "check", pid, "--tier", tier, "--repo", wt, "--no-evidence",
                                "--minimise-s", "30"], cwd=VERIF, env=envc, timeout=7200)
                clauses = sorted(set(re.findall(r"clause=(\S+)", outc)))
                caught.setdefault(pid, []).append({"seed": seed, "tier": tier, "exit": rcc, "clauses": clauses,
                                                   "wall_s": round(time.monotonic() - t0)})
                print(f"  {sid}: {pid} seed={seed} -> exit {rcc} {clauses}")
        res["checks"] = caught
        res["caught_by"] = sorted(p for p, rs in caught.items() if any(r["exit"] == 1 for r in rs))
        res["missed_by"] = sorted(p for p, rs in caught.items() if not any(r["exit"] == 1 for r in rs))
    finally:
        sh(["git", "-C", "/repo", "worktree", "remove", "--force", wt])
        shutil.rmtree(base, ignore_errors=True)
        sh(["git", "-C", "/repo", "worktree", "prune"])
    meta.setdefault("what_i_ran", {}).update(res)
    json.dump(meta, open(meta_path, "w"), indent=1, sort_keys=True)
    print(f"{sid}: tests[{res.get('test_suite_with_patch')}] demo without={res.get('demo_without_patch')} "
          f"with={res.get('demo_with_patch')} caught_by={res.get('caught_by')} missed_by={res.get('missed_by')}")
    return res


RELATED = {
    "bioconsert": ["C03", "C04", "C08", "C09", "C14", "C15"],
    "dataset.py": ["C03", "C15", "C16", "C17", "C18", "C09"],
    "ranking.py": ["C16", "C17", "C18", "C20", "C03"],
    "element.py": ["C16", "C17", "C03"],
    "utils.py": ["C18", "C16", "C17"],
    "parcons": ["C03", "C04", "C05", "C06", "C14", "C15"],
    "exact": ["C03", "C04", "C05", "C06", "C14", "C15"],
    "pairwisebasedalgorithm": ["C03", "C04", "C05", "C06", "C08", "C09", "C15"],
    "kwiksort": ["C03", "C11", "C09", "C15"],
    "borda": ["C03", "C09", "C14", "C15", "C04"],
    "pickaperm": ["C03", "C04", "C09", "C14", "C15"],
    "copeland": ["C03", "C09", "C15"],
    "consensus.py": ["C03", "C04", "C15"],
}


def related_checks(sid):
    txt = open(os.path.join(SEEDED, sid, "patch.diff")).read()
    out = [json.load(open(os.path.join(SEEDED, sid, "meta.json")))["property"]]
    for key, pids in RELATED.items():
        if key in txt:
            for p in pids:
                if p not in out:
                    out.append(p)
    return out


def main():
    ap = argparse.ArgumentParser()
    ap.add_argument("cmd", choices=["verify", "all", "matrix"])
    ap.add_argument("sid", nargs="?")
    ap.add_argument("--checks", default=None)
    ap.add_argument("--tier", default="quick")
    ap.add_argument("--seeds", default="0")
    a = ap.parse_args()
    seeds = [int(x) for x in a.seeds.split(",")]
    if a.cmd == "matrix":
        # every seeded change against the checks of the properties anchored in the files it touches
        for sid in sorted(os.listdir(SEEDED)):
            if os.path.isdir(os.path.join(SEEDED, sid)) and (not a.sid or sid.startswith(a.sid)):
                verify(sid, related_checks(sid), a.tier, seeds)
        return
    if a.cmd == "verify":
        verify(a.sid, a.checks.split(",") if a.checks else None, a.tier, seeds)
    else:
        for sid in sorted(os.listdir(SEEDED)):
            if os.path.isdir(os.path.join(SEEDED, sid)):
                verify(sid, a.checks.split(",") if a.checks else None, a.tier, seeds)


if __name__ == "__main__":
    main()
