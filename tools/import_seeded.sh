#!/bin/bash
# import_seeded.sh <PID> : copy the agent's SEEDED/m1,m2 into /verif/seeded/<PID>-m1, -m2 with a skeleton meta.json
set -e
P=$1
for m in m1 m2 m3 m4 m5 m6 m7 m8 m9 m10 m11 m12 m13; do
  src=${SEEDROOT:-/tmp/seedwork}/wt-$P/SEEDED/$m
  [ -d "$src" ] || continue
  dst=/verif/seeded/$P-$m
  mkdir -p $dst
  cp $src/patch.diff $dst/patch.diff
  cp $src/demo.py $dst/demo.py
  [ -f $src/notes.md ] && cp $src/notes.md $dst/notes.md
  # demos written for the agent's worktree: make the path neutral (run with cwd = a worktree root, PYTHONPATH set)
  sed -i "s#${SEEDROOT:-/tmp/seedwork}/wt-$P#.#g" $dst/demo.py
  sed -i 's#startswith("\./")#startswith(os.path.realpath(os.getcwd()) + "/")#; s#startswith("\.")#startswith(os.path.realpath(os.getcwd()))#' $dst/demo.py
  if [ ! -f $dst/meta.json ]; then
    /venv/bin/python - "$P" "$m" "$dst" <<'PY'
import json,sys
pid,m,dst=sys.argv[1:4]
json.dump({"id": f"{pid}-{m}", "property": pid, "origin": "independent sub-agent given only the property text and a scratch worktree",
           "needs_to_manifest": "see notes.md", "checks_expected": [pid]}, open(dst+"/meta.json","w"), indent=1)
PY
  fi
done
ls /verif/seeded
