#!/venv/bin/python
"""Regenerates /verif/MANIFEST.json from the property modules that exist (keeps it valid at all times)."""
import importlib
import json
import os
import sys

HERE = os.path.dirname(os.path.abspath(__file__))
VERIF = os.path.dirname(HERE)
sys.path.insert(0, VERIF)

NA = {
    "C01": "pure function of (scheme, dataset, candidate): get_kemeny_score reads no RNG, clock, file or peer and keeps "
           "no state; nothing for a schedule or a fault to act on. Its specification is re-implemented as the "
           "reference scorer used by C04/C05/C06/C08/C09, which is where a scoring mutant would surface.",
    "C02": "pure jitted function of (positions, scheme); no seam in reach. Its specification is the reference cost "
           "table used by the C05/C06/C11 oracles.",
    "C07": "parfront_partition / consistent_with are deterministic functions of their arguments with no schedule, "
           "fault or history dimension; input generation alone would be property-based testing, not simulation.",
    "C10": "PickAPerm is a deterministic scan touching no seam (no RNG, no I/O, no shared mutable state).",
    "C12": "Borda is a deterministic fold over positions; no seam.",
    "C13": "Copeland is a deterministic fold over the cost table; no seam.",
    "C19": "constructor validation, scaling and three pure predicates; no seam.",
}

TECH = {
    "C03": "deterministic simulation: seeded search over workloads x RNG schedules (scheduler owns every pivot draw; full pivot-tree sweep in thorough) x cplex environments (absent / broken import / stand-in peer) x in-place edit histories; structural oracle vs. a reference dataset model; ddmin-minimised replay files",
    "C04": "deterministic simulation: seeded histories interleaving algorithm calls on shared instances with reads of the lazily cached score, RNG schedules, cplex environments; reference-scorer oracle; minimised replay files",
    "C05": "deterministic simulation with fault injection: the import fault (cplex absent / broken) is the fault, stand-in CPLEX peer solves the model it is handed, real CBC peer; brute-force / subset-DP optimum and full minimiser set as oracle; seeded search, minimised replay files",
    "C06": "deterministic simulation: spy peer observes delegation to the auxiliary, stand-in CPLEX / real CBC solve components, RNG schedule for a KwikSort auxiliary; brute-force minimiser set as oracle; seeded search, minimised replay files",
    "C08": "deterministic simulation: RNG schedule decides KwikSort-started start points (sweep in thorough), shared instances and in-place dataset edits between calls; reference single-move neighbourhood as oracle; seeded search, minimised replay files",
    "C09": "deterministic simulation: spy peers capture each starter's consensus under the run's RNG schedule, hash seed and insertion orders per cell; reference scorer as oracle; seeded search, minimised replay files",
    "C11": "deterministic simulation: the scheduler decides every pivot; each execution is refined against an executable reference KwikSort fed with the recorded pivots; seeded search over schedules plus depth-first sweep of the whole pivot-choice tree (thorough)",
    "C14": "deterministic simulation with fault injection: cplex environment (absent / broken import / stand-in) decides whether 'never refused' can hold; nested configurations with scheduled random draws; predicate/outcome agreement oracle; seeded search, minimised replay files",
    "C15": "deterministic simulation with fault injection: histories on shared objects vs. a fresh-copy world with replayed RNG traces, solver-peer failures at the k-th solve of the history (CBC: PulpSolverError / not solved; stand-in CPLEX: CplexSolverError / no solution); snapshot invariants after every operation; seeded search, minimised replay files",
    "C16": "deterministic simulation: histories of mutators incl. refused ones (crash points inside the history), constructors via simulated filesystem and scheduled generators; reference dataset model recomputed after every operation; seeded search, minimised replay files",
    "C17": "deterministic simulation: hash seed per cell, recorded insertion orders, colliding int pools, derivation routes (projection, unification, simulated file round trip), compare-edit-compare histories; multiset-of-rankings model as oracle",
    "C18": "deterministic simulation with fault injection: simulated filesystem with crash / ENOSPC / lost write / flipped character / duplicated or lost line inside the write, deterministic step meter for bounded liveness; round-trip model equality and parser totality as oracles",
    "C20": "deterministic simulation: every randint/shuffle of the Markov walk is a scheduler decision (uniform, biased, degenerate policies); invariant monitor after every single step plus end-of-run shape oracle; seeded search over walks",
}

ALL = ["C%02d" % i for i in range(1, 21)]
DESIGN_REF = {p: f"DESIGN.md section 4, {p}" for p in ALL}


def main():
    checks, na = [], []
    for pid in ALL:
        if pid in NA:
            na.append({"property_id": pid, "reason": "not applicable to deterministic simulation: " + NA[pid]})
            continue
        path = os.path.join(VERIF, "corsim", "props", pid.lower() + ".py")
        if not os.path.exists(path):
            na.append({"property_id": pid, "reason": "not claimed yet: the simulation check for this property is "
                                                     "still under construction (see DESIGN.md section 4)"})
            continue
        mod = importlib.import_module("corsim.props." + pid.lower())
        checks.append({
            "property_id": pid,
            "quick_cmd": f"/venv/bin/python -m corsim check {pid} --tier quick",
            "thorough_cmd": f"/venv/bin/python -m corsim check {pid} --tier thorough",
            "evidence_file": f"/verif/evidence/{pid}.json",
            "replay_cmd_template": "/venv/bin/python -m corsim replay {path}",
            "engine": "corsim",
            "level_claimed": {"category": "exploration", "text": mod.LEVEL_TEXT, "design_ref": DESIGN_REF[pid]},
            "level_note": "; ".join(getattr(mod, "ASSUMPTIONS", [])) or "reference models in corsim/model.py",
            "technique": TECH[pid],
        })
    manifest = {
        "version": 1,
        "setup_cmd": "/venv/bin/python -m corsim.setup",
        "hooks": {
            "guard": "CORANKCO_VERIF",
            "enable": "no source hook is needed: every seam is installed from /verif by rebinding module globals "
                      "(random functions, open/os of corankco.utils and corankco.ranking, pulp.PULP_CBC_CMD) and by "
                      "putting a stand-in / broken `cplex` package first on PYTHONPATH; cells export CORANKCO_VERIF=1",
            "baseline_off_cmd": "cd /repo && /venv/bin/python -m pytest -ra -q -p no:cacheprovider --timeout=900 "
                                "--continue-on-collection-errors",
            "source_commits": [],
            "add_only": True,
        },
        "engines": [{
            "name": "corsim", "path": "/verif/corsim",
            "serves_properties": [c["property_id"] for c in checks],
            "kind_free_text": "deterministic simulator for a synchronous library: one fresh interpreter per cell "
                              "(PYTHONHASHSEED x cplex environment), seeded scheduler owning every random draw, "
                              "in-memory filesystem with fault injection, unwritable working directory as environment fault, "
                              "stand-in CPLEX peer (with solver faults), faulty CBC wrapper, "
                              "spy peers, reference models as oracles, ddmin minimiser, replay files",
        }],
        "checks": checks,
        "not_applicable": na,
        "notes": "See DESIGN.md. Exit codes: 0 held (KNOWN-FINDING lines allowed), 1 violation (VIOLATION line with "
                 "replay file), 2 harness error. known_findings.txt lists recorded and fixed defects.",
    }
    with open(os.path.join(VERIF, "MANIFEST.json"), "w") as fh:
        json.dump(manifest, fh, indent=1)
        fh.write("\n")
    print("claimed:", [c["property_id"] for c in checks])
    print("not claimed:", [n["property_id"] for n in na])


if __name__ == "__main__":
    main()
