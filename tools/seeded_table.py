#!/venv/bin/python
"""Prints the markdown table of /verif/seeded/*/meta.json for DESIGN.md section 9."""
import json, os
S = os.path.join(os.path.dirname(os.path.dirname(os.path.abspath(__file__))), "seeded")
print("| id | mechanism | needs | caught by (clauses) |")
print("|----|-----------|-------|---------------------|")
for sid in sorted(os.listdir(S)):
    p = os.path.join(S, sid, "meta.json")
    if not os.path.exists(p):
        continue
    m = json.load(open(p))
    w = m.get("what_i_ran", {})
    cb = []
    for pid, rs in sorted(w.get("checks", {}).items()):
        hit = [r for r in rs if r["exit"] == 1]
        cl = sorted({c for r in hit for c in r["clauses"]})
        if hit:
            cb.append(f"{pid} {len(hit)}/{len(rs)} seeds: " + ", ".join(c.split('/', 1)[1] for c in cl))
        else:
            cb.append(f"{pid}: MISSED ({len(rs)} seeds)")
    print(f"| {sid} | {m.get('mechanism','')} | {m.get('needs_to_manifest','')} | {'; '.join(cb)} |")
