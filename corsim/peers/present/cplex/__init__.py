"""Stand-in for the `cplex` Python API - exactly the surface corankco's exactalgorithmcplex.py uses.

It is a STUB peer (reported as such in the evidence): deterministic, in-process, bounded. Like the real library
it validates what it is given (lengths agree, referenced variables exist, senses/types are known) and raises
CplexError otherwise. It solves the 0-1 programme it was handed - not the ranking problem - by depth-first
branch and bound with bounds propagation on the rows, so an error in the model the library builds (a missing
transitivity row, a wrong sense string, a wrong objective coefficient) changes the answer exactly as it would
with CPLEX.
"""
import hashlib

__corsim_standin__ = True
__version__ = "0.0-corsim-standin"

MAX_VARS = 64
MAX_NODES = 400000
EPS = 1e-9

STATS = {"instances": 0, "solves": 0, "populates": 0, "nodes": 0, "rows": 0, "vars": 0, "pool_max": 0,
         "pool_gt1": 0, "zero_objective": 0, "last_objective": None, "models": []}


class CplexError(Exception):
    pass


class CplexSolverError(CplexError):
    pass


class StubCapacity(Exception):
    """The stand-in was asked for more than it is built for: the run is discarded (never a verdict)."""


# fault seam: the simulator may install a callable here; it is called with the problem at the start of every solve /
# populate and may raise CplexSolverError (the solver died, licence / size limit) or mark the problem as ending
# without a solution (`_forced_no_solution`), which is what a time limit hit before the first incumbent looks like
FAULT_HOOK = None


exceptions = type("exceptions", (), {"CplexError": CplexError, "CplexSolverError": CplexSolverError})
infinity = 1e20


class _Callback:
    pass


# PuLP's CPLEX_PY wrapper only names these at import time; it is never used by corankco
callbacks = type("callbacks", (), {"Callback": _Callback})


class SparsePair:
    def __init__(self, ind=None, val=None):
        self.ind = list(ind or [])
        self.val = list(val or [])


class _Param:
    def __init__(self, default, lo=None, hi=None):
        self._v = default
        self._lo, self._hi = lo, hi
        self.was_set = False

    def set(self, value):
        if not isinstance(value, (int, float)) or isinstance(value, bool):
            raise CplexError("parameter value must be numeric")
        if self._lo is not None and value < self._lo or self._hi is not None and value > self._hi:
            raise CplexError("CPLEX Error  1014: Parameter value out of range")
        self._v = value
        self.was_set = True

    def get(self):
        return self._v


class _NS:
    pass


def _parameters():
    p = _NS()
    p.timelimit = _Param(1e75, 0)
    p.workmem = _Param(2048, 0)
    p.threads = _Param(0, 0)
    p.mip = _NS()
    p.mip.limits = _NS()
    p.mip.limits.treememory = _Param(1e75, 0)
    p.mip.limits.populate = _Param(20, 1)
    p.mip.tolerances = _NS()
    p.mip.tolerances.mipgap = _Param(1e-4, 0, 1)
    p.mip.tolerances.absmipgap = _Param(1e-6, 0)
    p.mip.pool = _NS()
    p.mip.pool.absgap = _Param(1e75, 0)
    p.mip.pool.relgap = _Param(1e75, 0)
    p.mip.pool.intensity = _Param(0, 0, 4)
    p.mip.pool.capacity = _Param(2100000000, 0)
    return p


class _Sense:
    minimize = 1
    maximize = -1


class _Objective:
    sense = _Sense

    def __init__(self):
        self._sense = _Sense.minimize

    def set_sense(self, s):
        if s not in (_Sense.minimize, _Sense.maximize):
            raise CplexError("unknown objective sense")
        self._sense = s

    def get_sense(self):
        return self._sense


class _Variables:
    def __init__(self, prob):
        self._p = prob

    def add(self, obj=None, lb=None, ub=None, types="", names=None, columns=None):
        if columns is not None:
            raise StubCapacity("columns= is not supported by the stand-in")
        lens = [len(x) for x in (obj, lb, ub, types, names) if x is not None and len(x) > 0]
        if not lens:
            return range(0)
        if len(set(lens)) != 1:
            raise CplexError("CPLEX Error  1200: Inconsistent arguments to variables.add (lengths differ)")
        k = lens[0]
        obj = list(obj) if obj else [0.0] * k
        lb = list(lb) if lb else [0.0] * k
        ub = list(ub) if ub else [1e20] * k
        types = list(types) if types else ["C"] * k
        names = list(names) if names else ["x%d" % (len(self._p._names) + i + 1) for i in range(k)]
        start = len(self._p._names)
        for i in range(k):
            if types[i] not in "BICSN":
                raise CplexError("CPLEX Error  3021: Invalid ctype entry")
            if types[i] != "B":
                raise StubCapacity("only binary variables are supported by the stand-in")
            if not (lb[i] <= ub[i]):
                raise CplexError("bound infeasible column")
            if lb[i] < 0 or ub[i] > 1:
                raise StubCapacity("binary variable with bounds outside [0,1]")
            if not isinstance(names[i], str):
                raise CplexError("names must be strings")
            if names[i] in self._p._index:
                raise CplexError("CPLEX Error  1222: Duplicate entry or entries: " + names[i])
            self._p._index[names[i]] = len(self._p._names)
            self._p._names.append(names[i])
            self._p._obj.append(float(obj[i]))
            self._p._lb.append(int(round(lb[i])))
            self._p._ub.append(int(round(ub[i])))
        if len(self._p._names) > MAX_VARS:
            raise StubCapacity("%d variables > %d" % (len(self._p._names), MAX_VARS))
        return range(start, start + k)

    def get_num(self):
        return len(self._p._names)

    def get_names(self):
        return list(self._p._names)


class _LinearConstraints:
    def __init__(self, prob):
        self._p = prob

    def add(self, lin_expr=None, senses="", rhs=None, range_values=None, names=None):
        lin_expr = list(lin_expr or [])
        senses = list(senses or "")
        rhs = list(rhs or [])
        names = list(names or [])
        lens = [len(x) for x in (lin_expr, senses, rhs, names) if len(x) > 0]
        if not lens:
            return range(0)
        if len(set(lens)) != 1:
            raise CplexError("CPLEX Error  1200: Inconsistent arguments to linear_constraints.add: "
                             "lengths %s" % [len(lin_expr), len(senses), len(rhs), len(names)])
        k = lens[0]
        if not lin_expr:
            lin_expr = [[[], []]] * k
        if not senses:
            senses = ["E"] * k
        if not rhs:
            rhs = [0.0] * k
        start = len(self._p._rows)
        for r in range(k):
            if senses[r] not in "ELGR":
                raise CplexError("CPLEX Error  1215: Invalid sense entry")
            if senses[r] == "R":
                raise StubCapacity("ranged rows are not supported by the stand-in")
            pair = lin_expr[r]
            if hasattr(pair, "ind") and hasattr(pair, "val"):
                ind, val = list(pair.ind), list(pair.val)
            else:
                if len(pair) != 2:
                    raise CplexError("lin_expr entries must be [ind, val] pairs")
                ind, val = list(pair[0]), list(pair[1])
            if len(ind) != len(val):
                raise CplexError("CPLEX Error  1200: ind and val of a row differ in length")
            idx = []
            for v in ind:
                if isinstance(v, str):
                    if v not in self._p._index:
                        raise CplexError("CPLEX Error  1210: Name not found: " + v)
                    idx.append(self._p._index[v])
                else:
                    if not 0 <= v < len(self._p._names):
                        raise CplexError("CPLEX Error  1201: Column index out of range")
                    idx.append(int(v))
            if len(set(idx)) != len(idx):
                raise CplexError("CPLEX Error  1222: Duplicate entry or entries in row %d" % r)
            self._p._rows.append((idx, [float(c) for c in val], senses[r], float(rhs[r])))
        return range(start, start + k)

    def get_num(self):
        return len(self._p._rows)


class _Pool:
    def __init__(self, prob):
        self._p = prob

    def get_num(self):
        return len(self._p._pool)

    def get_values(self, i, *which):
        if not 0 <= i < len(self._p._pool):
            raise CplexError("CPLEX Error  3024: solution index out of range")
        return [float(v) for v in self._p._pool[i][1]]

    def get_objective_value(self, i):
        return self._p._pool[i][0]


class _Solution:
    def __init__(self, prob):
        self._p = prob
        self.pool = _Pool(prob)

    def get_values(self, *which):
        if self._p._incumbent is None:
            raise CplexSolverError("CPLEX Error  1217: No solution exists.")
        vals = [float(v) for v in self._p._incumbent[1]]
        if which:
            w = which[0]
            if isinstance(w, str):
                return vals[self._p._index[w]]
            if isinstance(w, int):
                return vals[w]
            return [vals[self._p._index[x] if isinstance(x, str) else x] for x in w]
        return vals

    def get_objective_value(self):
        if self._p._incumbent is None:
            raise CplexSolverError("CPLEX Error  1217: No solution exists.")
        return self._p._incumbent[0]

    def get_status(self):
        return 101 if self._p._incumbent is not None else 103

    def get_status_string(self):
        return "integer optimal solution" if self._p._incumbent is not None else "integer infeasible"


class Cplex:
    def __init__(self, *args):
        if args:
            raise StubCapacity("reading models from files is not supported by the stand-in")
        self._names, self._index, self._obj, self._lb, self._ub, self._rows = [], {}, [], [], [], []
        self._incumbent = None
        self._pool = []
        self.parameters = _parameters()
        self.objective = _Objective()
        self.variables = _Variables(self)
        self.linear_constraints = _LinearConstraints(self)
        self.solution = _Solution(self)
        STATS["instances"] += 1

    # streams -----------------------------------------------------------------------------------
    def set_results_stream(self, stream, fn=None):
        return None

    def set_log_stream(self, stream, fn=None):
        return None

    def set_warning_stream(self, stream, fn=None):
        return None

    def set_error_stream(self, stream, fn=None):
        return None

    def end(self):
        return None

    # solving -----------------------------------------------------------------------------------
    def solve(self):
        STATS["solves"] += 1
        self._forced_no_solution = False
        if FAULT_HOOK is not None:
            FAULT_HOOK(self)
        if self._forced_no_solution:
            self._incumbent, self._pool = None, []
            return
        sols = self._search(all_within=None)
        self._incumbent = sols[0] if sols else None
        self._pool = sols[:1]
        self._note()

    def populate_solution_pool(self):
        STATS["populates"] += 1
        self._forced_no_solution = False
        if FAULT_HOOK is not None:
            FAULT_HOOK(self)
        if self._forced_no_solution:
            self._incumbent, self._pool = None, []
            return
        gap = self.parameters.mip.pool.absgap.get()
        limit = int(self.parameters.mip.limits.populate.get())
        first = self._search(all_within=None)
        sols = self._search(all_within=gap, known_best=first[0][0]) if first else []
        # CPLEX gives no order guarantee for the pool: use a content-keyed pseudo-random one
        sols.sort(key=lambda s: hashlib.sha256(bytes(s[1])).hexdigest())
        if len(sols) > limit:
            best = min(sols, key=lambda s: s[0])
            sols = [best] + [s for s in sols if s is not best][:limit - 1]
        self._pool = sols
        self._incumbent = min(sols, key=lambda s: s[0]) if sols else None
        STATS["pool_max"] = max(STATS["pool_max"], len(sols))
        if len(sols) > 1:
            STATS["pool_gt1"] += 1
        self._note()

    def _note(self):
        STATS["rows"] += len(self._rows)
        STATS["vars"] += len(self._names)
        if self._incumbent is not None:
            STATS["last_objective"] = self._incumbent[0]
            if abs(self._incumbent[0]) < EPS:
                STATS["zero_objective"] += 1
        if len(STATS["models"]) < 64:
            STATS["models"].append(self._export())

    def _export(self):
        return {"names": list(self._names), "obj": list(self._obj), "rows": [list(r) for r in self._rows],
                "sense": self.objective.get_sense(),
                "opt": None if self._incumbent is None else self._incumbent[0]}

    def _search(self, all_within, known_best=None):
        """Depth-first branch and bound with bounds propagation. Returns [(objective, values)] - one optimum,
        or every solution within `all_within` of the optimum."""
        n = len(self._names)
        sgn = 1.0 if self.objective.get_sense() == _Sense.minimize else -1.0
        cost = [sgn * c for c in self._obj]
        rows = self._rows
        occ = [[] for _ in range(n)]
        for ri, (idx, _, _, _) in enumerate(rows):
            for v in idx:
                occ[v].append(ri)
        val = [-1] * n
        trail = []
        nonneg = all(c >= 0 for c in cost)
        # disjoint "exactly one" rows for the lower bound and for branching
        used = set()
        one_rows = []
        for ri, (idx, coef, sense, rhs) in enumerate(rows):
            if sense == "E" and abs(rhs - 1.0) < EPS and all(abs(c - 1.0) < EPS for c in coef) \
                    and not (set(idx) & used) and len(idx) > 0:
                one_rows.append(ri)
                used |= set(idx)
        nodes = [0]

        def assign(v, b, queue):
            if val[v] == b:
                return True
            if val[v] != -1:
                return False
            val[v] = b
            trail.append(v)
            queue.append(v)
            return True

        def propagate(queue):
            while queue:
                v = queue.pop()
                for ri in occ[v]:
                    idx, coef, sense, rhs = rows[ri]
                    mn = mx = 0.0
                    for u, c in zip(idx, coef):
                        if val[u] == -1:
                            if c > 0:
                                mx += c
                            else:
                                mn += c
                        elif val[u] == 1:
                            mn += c
                            mx += c
                    if sense in "LE":
                        if mn > rhs + EPS:
                            return False
                        for u, c in zip(idx, coef):
                            if val[u] == -1:
                                if c > 0 and mn + c > rhs + EPS:
                                    if not assign(u, 0, queue):
                                        return False
                                elif c < 0 and mn - c > rhs + EPS:
                                    if not assign(u, 1, queue):
                                        return False
                    if sense in "GE":
                        if mx < rhs - EPS:
                            return False
                        for u, c in zip(idx, coef):
                            if val[u] == -1:
                                if c > 0 and mx - c < rhs - EPS:
                                    if not assign(u, 1, queue):
                                        return False
                                elif c < 0 and mx + c < rhs - EPS:
                                    if not assign(u, 0, queue):
                                        return False
            return True

        def undo(mark):
            while len(trail) > mark:
                val[trail.pop()] = -1

        def lower_bound():
            lb = 0.0
            for v in range(n):
                if val[v] == 1:
                    lb += cost[v]
                elif val[v] == -1 and cost[v] < 0:
                    lb += cost[v]
            if nonneg:
                for ri in one_rows:
                    idx = rows[ri][0]
                    if any(val[u] == 1 for u in idx):
                        continue
                    free = [cost[u] for u in idx if val[u] == -1]
                    if free:
                        lb += min(free)
            return lb

        best = [float("inf") if known_best is None else sgn * known_best]
        found = []

        def cutoff():
            if all_within is None:
                return best[0] - 1e-9
            return best[0] + all_within + 1e-12

        def record():
            obj = sum(cost[v] for v in range(n) if val[v] == 1)
            if all_within is None:
                if obj < best[0] - 1e-9:
                    best[0] = obj
                    found[:] = [(sgn * obj, tuple(val))]
            else:
                if obj < best[0]:
                    best[0] = obj
                found.append((sgn * obj, tuple(val)))

        def dfs():
            nodes[0] += 1
            if nodes[0] > MAX_NODES:
                raise StubCapacity("branch-and-bound node limit")
            lb = lower_bound()
            if all_within is None:
                if lb >= cutoff():
                    return
            elif lb > cutoff():
                return
            # choose the unsatisfied exactly-one row with the fewest free variables
            pick, pick_free = None, None
            for ri in one_rows:
                idx = rows[ri][0]
                if any(val[u] == 1 for u in idx):
                    continue
                free = [u for u in idx if val[u] == -1]
                if free and (pick_free is None or len(free) < len(pick_free)):
                    pick, pick_free = ri, free
                    if len(free) == 1:
                        break
            if pick is not None:
                for u in sorted(pick_free, key=lambda w: (cost[w], w)):
                    mark = len(trail)
                    q = []
                    if assign(u, 1, q) and propagate(q):
                        dfs()
                    undo(mark)
                return
            free = [v for v in range(n) if val[v] == -1]
            if not free:
                record()
                return
            u = free[0]
            for b in ((0, 1) if cost[u] >= 0 else (1, 0)):
                mark = len(trail)
                q = []
                if assign(u, b, q) and propagate(q):
                    dfs()
                undo(mark)

        # root: bounds, then rows that are already decided
        q = []
        ok = True
        for v in range(n):
            if self._lb[v] == self._ub[v]:
                ok = ok and assign(v, self._lb[v], q)
        # trigger propagation of every row once (rows over a single variable, etc.)
        if ok:
            for ri, (idx, coef, sense, rhs) in enumerate(rows):
                if not idx:
                    if (sense in "LE" and 0.0 > rhs + EPS) or (sense in "GE" and 0.0 < rhs - EPS):
                        ok = False
                    continue
                # a pseudo "touch": run the row check by pushing one of its variables through the queue
                q.append(idx[0])
            ok = propagate(q)
        if ok:
            import sys
            old = sys.getrecursionlimit()
            sys.setrecursionlimit(max(old, 10000))
            try:
                dfs()
            finally:
                sys.setrecursionlimit(old)
        STATS["nodes"] += nodes[0]
        if all_within is not None:
            found = [s for s in found if sgn * s[0] <= best[0] + all_within + 1e-12]
            # duplicates are impossible (each leaf is a distinct full assignment)
        return found


def reset_stats():
    for k in list(STATS):
        STATS[k] = [] if k == "models" else (None if k == "last_objective" else 0)
