"""A CPLEX installation whose shared library cannot be loaded (the classic broken install)."""
raise ImportError("libcplex2211.so: cannot open shared object file: No such file or directory")
