"""CPLEX peer environments. The directory of the chosen environment is prepended to PYTHONPATH by the driver
*before* corankco is imported, because the library decides at import time whether `cplex` exists."""
import os

from .. import HarnessError

HERE = os.path.dirname(os.path.abspath(__file__))
ENVS = ("absent", "broken", "present")


def path_for(env: str):
    if env == "absent":
        return None
    if env in ("broken", "present"):
        return os.path.join(HERE, env)
    raise HarnessError(f"unknown environment {env}")


def check_env(env: str) -> None:
    """The cell must really be in the environment it claims."""
    try:
        import cplex
        state = "present" if getattr(cplex, "__corsim_standin__", False) else "real"
    except ModuleNotFoundError:
        state = "absent"
    except ImportError:
        state = "broken"
    if state != env:
        raise HarnessError(f"cell claims cplex environment '{env}' but the interpreter sees '{state}'")
