"""Run context and property registry (worker side)."""
import importlib
import os
import random
from typing import Any, Dict, List, Optional

from . import HarnessError
from .seed import derive, digest

PROPS = ["C03", "C04", "C05", "C06", "C08", "C09", "C11", "C14", "C15", "C16", "C17", "C18", "C20"]
NCELLS = 16  # fixed: the run -> cell mapping must not depend on the machine


def prop_module(pid: str):
    if pid not in PROPS:
        raise HarnessError(f"no check for property {pid}")
    return importlib.import_module(f"corsim.props.{pid.lower()}")


class Streams:
    """Independent labelled streams of one run; adding a log line can never shift a choice."""

    def __init__(self, run_seed: int):
        self.run_seed = run_seed
        self.workload = random.Random(derive(run_seed, "workload"))
        self.schedule = random.Random(derive(run_seed, "schedule"))
        self.faults = random.Random(derive(run_seed, "faults"))
        self.knobs = random.Random(derive(run_seed, "knobs"))


def run_seed_of(seed: int, tier: str, pid: str, run_index: int) -> int:
    return derive(seed, tier, pid, run_index)


def cell_of(seed: int, tier: str, pid: str, cell_index: int, envs: List[str]) -> dict:
    return {"index": cell_index,
            "hashseed": derive(seed, tier, pid, "cell", cell_index) % (2 ** 32),
            "env": envs[cell_index % len(envs)]}


class Ctx:
    """What a run may touch: event log, probes, fault counters, violations. No clock, no global RNG."""

    def __init__(self, pid: str, cell: dict):
        self.pid = pid
        self.cell = cell
        self.env = cell["env"]
        self.events: List[Any] = []
        self.probes: Dict[str, int] = {}
        self.faults: Dict[str, int] = {}
        self.violations: List[dict] = []
        self.steps = 0          # simulated steps: operations + seam calls
        self.states = set()     # per-property state measure (digests)
        self.schedules = set()  # distinct schedule digests

    def event(self, *ev) -> None:
        self.events.append(list(ev))
        self.steps += 1

    def probe(self, name: str, k: int = 1) -> None:
        self.probes[name] = self.probes.get(name, 0) + k

    def fault(self, kind: str) -> None:
        self.faults[kind] = self.faults.get(kind, 0) + 1

    def state(self, obj) -> None:
        self.states.add(digest(obj))

    def violate(self, clause: str, observed, expected=None, tags: Optional[dict] = None, where: str = "") -> None:
        self.violations.append({"property": self.pid, "clause": clause, "where": where,
                                "observed": observed, "expected": expected, "tags": tags or {}})

    def result(self, case: dict) -> dict:
        return {"digest": digest(self.events), "case_digest": digest(case), "probes": self.probes,
                "faults": self.faults, "violations": self.violations, "steps": self.steps,
                "states": sorted(self.states), "schedules": sorted(self.schedules)}


CWD_FAULT_RATE = 0.08
_unwritable = []


def unwritable_dir() -> Optional[str]:
    """A directory of this machine in which even this process cannot create a file (probed once per interpreter)."""
    if not _unwritable:
        found = None
        for d in ("/sys", "/proc", "/sys/kernel", "/proc/sys"):
            try:
                if not os.path.isdir(d):
                    continue
                with open(os.path.join(d, "corsim-probe"), "w"):
                    pass
                os.remove(os.path.join(d, "corsim-probe"))
            except OSError:
                found = d
                break
        _unwritable.append(found)
    return _unwritable[0]


def execute(pid: str, case: dict, cell: dict) -> dict:
    """Deterministic function of (case, cell, code under test)."""
    from . import sched
    mod = prop_module(pid)
    ctx = Ctx(pid, cell)
    sched.set_current(None)
    picks0 = sched.total_picks
    back = None
    if case.get("_cwd") == "unwritable":
        d = unwritable_dir()
        if d is None:
            ctx.probe("cwd_unwritable_unavailable")
        else:
            back = os.getcwd()
            os.chdir(d)
            ctx.fault("cwd_unwritable")
    try:
        mod.run_case(case, ctx)
        ctx.steps += sched.total_picks - picks0
    finally:
        if back is not None:
            os.chdir(back)
        sched.set_current(None)
        del sched.draw_observers[:]
    return ctx.result(case)


def generate(pid: str, seed: int, tier: str, run_index: int, cell: dict) -> dict:
    mod = prop_module(pid)
    st = Streams(run_seed_of(seed, tier, pid, run_index))
    case = mod.gen_case(st, tier, cell["env"])
    case["_run"] = {"seed": seed, "tier": tier, "index": run_index}
    # environment fault, drawn from a stream of its own so that it shifts no other choice: the process' working
    # directory is one in which nothing can be created (read-only deployment, removed directory); nothing the
    # properties promise is conditional on a writable working directory
    if random.Random(derive(st.run_seed, "cwd")).random() < CWD_FAULT_RATE:
        case["_cwd"] = "unwritable"
    return case
