"""Driver: spawns cells, distributes runs, minimises and replays violations, writes evidence.

The wall clock is read here only, for budgets and throughput numbers.
"""
import hashlib
import json
import os
import shutil
import subprocess
import sys
import tempfile
import threading
import time
from typing import Dict, List, Optional

from . import GUARD, HarnessError
from .seed import digest
from . import runner

VERIF = os.path.dirname(os.path.dirname(os.path.abspath(__file__)))
REPO = os.environ.get("CORSIM_REPO", "/repo")
PY = os.environ.get("CORSIM_PYTHON", "/venv/bin/python")
CACHE = os.path.join(VERIF, ".cache")


def repo_fingerprint(repo: str = None) -> str:
    repo = repo or REPO
    h = hashlib.sha256()
    root = os.path.join(repo, "corankco")
    for dp, dn, fn in sorted(os.walk(root)):
        dn.sort()
        for f in sorted(fn):
            if f.endswith(".py"):
                p = os.path.join(dp, f)
                h.update(os.path.relpath(p, root).encode())
                with open(p, "rb") as fh:
                    h.update(fh.read())
    return h.hexdigest()[:16]


def numba_cache_dir(repo: str = None) -> str:
    """Content-keyed: an edited tree can never run stale machine code."""
    base = os.path.join(CACHE, "numba")
    d = os.path.join(base, repo_fingerprint(repo))
    os.makedirs(d, exist_ok=True)
    try:  # keep the three most recent keys only (disk is limited)
        olds = sorted((os.path.join(base, x) for x in os.listdir(base)), key=os.path.getmtime, reverse=True)
        for o in olds[3:]:
            if o != d:
                shutil.rmtree(o, ignore_errors=True)
    except OSError:
        pass
    return d


class Cell:
    """One worker interpreter with a fixed hash seed and cplex environment."""

    def __init__(self, cell: dict, repo: str = None):
        from . import peers
        self.cell = cell
        self.repo = repo or REPO
        env = dict(os.environ)
        paths = [p for p in (peers.path_for(cell["env"]), self.repo, VERIF) if p]
        env["PYTHONPATH"] = os.pathsep.join(paths)
        env["PYTHONHASHSEED"] = str(cell["hashseed"])
        env["CORSIM_CELL"] = json.dumps(cell)
        env["NUMBA_CACHE_DIR"] = numba_cache_dir(self.repo)
        env[GUARD] = "1"
        env["CORSIM_REPO"] = self.repo
        env["PYTHONDONTWRITEBYTECODE"] = "1"
        env.pop("PYTHONSTARTUP", None)
        # private scratch directory for the solver peer's MPS / solution files; removed with the cell, also when the
        # cell is killed in the middle of a solve
        self.tmp = tempfile.mkdtemp(prefix="corsim-cell-")
        env["TMPDIR"] = self.tmp
        self.proc = subprocess.Popen([PY, "-m", "corsim.worker"], stdin=subprocess.PIPE, stdout=subprocess.PIPE,
                                     stderr=subprocess.PIPE, env=env, cwd=VERIF, text=True, bufsize=1)
        self.stderr_tail: List[str] = []
        self._t = threading.Thread(target=self._drain, daemon=True)
        self._t.start()
        msg = self._read(timeout=180)
        if msg.get("t") != "ready":
            self.kill()
            raise HarnessError(f"cell {cell} failed to start: {msg.get('error')}\n{msg.get('tb', '')}")

    def _drain(self):
        for line in self.proc.stderr:
            self.stderr_tail.append(line)
            del self.stderr_tail[:-40]

    def _read(self, timeout: float) -> dict:
        res: List = []

        def rd():
            res.append(self.proc.stdout.readline())
        t = threading.Thread(target=rd, daemon=True)
        t.start()
        t.join(timeout)
        if t.is_alive():
            self.kill()
            raise HarnessError(f"cell {self.cell} timed out after {timeout}s\n" + "".join(self.stderr_tail))
        line = res[0]
        if not line:
            rc = self.proc.poll()
            raise HarnessError(f"cell {self.cell} died (rc={rc})\n" + "".join(self.stderr_tail))
        msg = json.loads(line)
        if msg.get("t") == "fatal":
            self.kill()
            raise HarnessError(f"cell {self.cell}: {msg['error']}\n{msg.get('tb', '')}")
        return msg

    def send(self, cmd: dict) -> None:
        self.proc.stdin.write(json.dumps(cmd) + "\n")
        self.proc.stdin.flush()

    def exec_case(self, pid: str, case: dict, timeout: float = 330, tolerant: bool = False) -> dict:
        self.send({"cmd": "exec", "pid": pid, "case": case, "tolerant": tolerant})
        return self._read(timeout)["res"]

    def explore(self, cmd: dict, timeout: float, on_violation) -> dict:
        self.send(cmd)
        self.last_done = 0
        end = time.monotonic() + timeout
        while True:
            msg = self._read(max(1.0, end - time.monotonic()))
            if msg["t"] == "violation":
                on_violation(self.cell, msg)
            elif msg["t"] == "progress":
                self.last_done = msg["done"]
            elif msg["t"] == "done":
                return msg["agg"]

    def gen_case(self, pid, seed, tier, index) -> dict:
        self.send({"cmd": "gen", "pid": pid, "seed": seed, "tier": tier, "index": index})
        return self._read(120)["case"]

    def close(self):
        try:
            self.send({"cmd": "quit"})
            self.proc.wait(timeout=10)
        except Exception:
            self.kill()
        shutil.rmtree(self.tmp, ignore_errors=True)

    def kill(self):
        try:
            self.proc.kill()
            self.proc.wait(timeout=10)
        except Exception:
            pass
        shutil.rmtree(self.tmp, ignore_errors=True)


HANG_TIMEOUT_S = 45.0


def careful_pass(pid, tier, seed, cell, idxs, repo, on_violation, aggs, c, lock, why):
    """Re-run the remaining runs of a dead cell one by one; the first that kills or stalls its interpreter for
    HANG_TIMEOUT_S is reported as a liveness violation with its case (4 orders of magnitude above a normal run)."""
    total = None
    w = Cell(cell, repo)
    try:
        for n, idx in enumerate(idxs[:64]):
            try:
                agg = w.explore({"cmd": "explore", "pid": pid, "seed": seed, "tier": tier, "runs": [idx],
                                 "samples": 1, "run_timeout": int(HANG_TIMEOUT_S)}, timeout=HANG_TIMEOUT_S + 15,
                                on_violation=on_violation)
            except HarnessError as exc:
                g = Cell(cell, repo)
                try:
                    case = g.gen_case(pid, seed, tier, idx)
                finally:
                    g.close()
                on_violation(cell, {"run_index": idx, "case": case, "digest": None, "violations": [{
                    "property": pid, "clause": pid + "/hang", "where": "run did not finish",
                    "observed": f"the run stalled or killed its interpreter (> {HANG_TIMEOUT_S:.0f} s wall, a normal "
                                f"run takes milliseconds): {str(exc)[-600:]}",
                    "expected": "every operation returns or raises", "tags": {"liveness": True}}]})
                break
            if total is None:
                total = agg
            else:
                total["runs"] += agg["runs"]
                total["steps"] += agg["steps"]
    finally:
        w.kill()
    if total is None:
        total = {"runs": 1, "nontrivial": [], "probes": {}, "faults": {}, "steps": 0, "states": [], "schedules": [],
                 "samples": [], "digests": {}, "violating_runs": 1, "stopped_early": True}
    total["stopped_early"] = True
    total["stop_reason"] = "cell died: " + why[:200]
    with lock:
        aggs[c] = total


def explore_property(pid: str, tier: str, seed: int, budget_s: Optional[float] = None, runs: Optional[int] = None,
                     jobs: int = None, want_digests: bool = False, repo: str = None) -> dict:
    """Run the seeded search for one property; returns aggregated results and raw violation messages."""
    mod = runner.prop_module(pid)
    nruns = runs if runs is not None else mod.RUNS[tier]
    jobs = jobs or min(runner.NCELLS, os.cpu_count() or 1)
    default_budget = {"quick": 150.0, "thorough": 1500.0}[tier]
    wall = budget_s if budget_s is not None else default_budget
    cells = [runner.cell_of(seed, tier, pid, c, mod.ENVS) for c in range(runner.NCELLS)]
    violations: List[dict] = []
    aggs: Dict[int, dict] = {}
    errors: List[str] = []
    lock = threading.Lock()
    sem = threading.Semaphore(jobs)
    t0 = time.monotonic()

    def on_violation(cell, msg):
        with lock:
            msg["cell"] = cell
            violations.append(msg)

    def work(c):
        with sem:
            cell = cells[c]
            idxs = list(range(c, nruns, runner.NCELLS))
            if not idxs:
                return
            w = None
            try:
                w = Cell(cell, repo)
                try:
                    left = max(5.0, wall - (time.monotonic() - t0))
                    agg = w.explore({"cmd": "explore", "pid": pid, "seed": seed, "tier": tier, "runs": idxs,
                                     "wall_s": left, "samples": 1, "want_digests": want_digests},
                                    timeout=left + 400, on_violation=on_violation)
                    with lock:
                        aggs[c] = agg
                finally:
                    w.close()
            except HarnessError as exc:
                msg = str(exc)
                if w is not None and ("died" in msg or "timed out" in msg):
                    # a run killed or stalled the interpreter: locate it one run at a time (bounded liveness)
                    try:
                        careful_pass(pid, tier, seed, cell, idxs[getattr(w, "last_done", 0):], repo, on_violation,
                                     aggs, c, lock, msg)
                        return
                    except HarnessError as exc2:
                        msg = str(exc2)
                with lock:
                    errors.append(msg)
            except Exception as exc:  # pragma: no cover
                with lock:
                    errors.append(repr(exc))

    threads = [threading.Thread(target=work, args=(c,)) for c in range(runner.NCELLS)]
    for t in threads:
        t.start()
    for t in threads:
        t.join()
    return {"cells": cells, "aggs": aggs, "violations": violations, "errors": errors,
            "wall_s": time.monotonic() - t0, "nruns_planned": nruns}
