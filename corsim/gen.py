"""Seeded workload generation (swarm style): every size, mix and shape is drawn per run from the run's own
streams. Everything produced is a plain JSON-able spec."""
import random
from typing import List

# ---------------------------------------------------------------------------------------------- element pools

INT_POOLS = {
    "small": lambda n: list(range(n)),
    "from1": lambda n: list(range(1, n + 1)),
    "collide8": lambda n: [8 * i for i in range(n)],          # all collide in an 8-slot table
    "collide32": lambda n: [32 * i + 1 for i in range(n)],
    "large": lambda n: [10 ** 9 + 7 * i for i in range(n)],
    "huge": lambda n: [2 ** 53 + 1, 2 ** 63 - 1, 10 ** 18 + 7, 18446744073709551557, 2 ** 53 + 3, 2 ** 61 - 1, 2 ** 64,
                       10 ** 30, 2 ** 53 + 5, 3 * 10 ** 18][:n],  # 64-bit ids and beyond: a double cannot hold them
    "sparse": lambda n: [3, 17, 4, 100, 64, 9, 1024, 33, 12, 5][:n],
}
STR_POOLS = {
    "letters": lambda n: list("abcdefghij")[:n],
    "upper": lambda n: list("ABCDEFGHIJ")[:n],
    "multi": lambda n: ["g%d" % i for i in range(n)],
    "words": lambda n: ["ant", "bee", "cat", "dog", "eel", "fox", "gnu", "hen", "ibis", "jay"][:n],
    "mixeddigit": lambda n: (["07", "a1", "x", "10", "b", "2", "zz", "q9", "k", "5"])[:n],  # has non-digit names
    "digitstr": lambda n: [str(i + 1) for i in range(n)],    # digit-only strings -> library turns them to int
    "long": lambda n: ["ENSG00000139618_BRCA2_homo_sapiens_chr13", "a_rather_long_element_name_of_more_than_forty_characters",
                       "q" * 64, "gene_family_member_number_three_isoform_b", "w" * 33, "Saccharomyces_cerevisiae_S288C_YAL001C",
                       "zeta_" * 9, "long-name.with.dots-and-dashes.of.fifty.characters", "k" * 40, "m_" * 20][:n],
}


def pick_pool(rng: random.Random, n: int, kinds=("int", "str"), file_safe: bool = False):
    kind = rng.choice(kinds)
    if kind == "int":
        name = rng.choice(sorted(INT_POOLS))
        pool = INT_POOLS[name](n)
        if not file_safe and rng.random() < 0.1:
            pool = [-(v + 1) for v in pool]  # negative ints
            name += "-neg"
    else:
        names = sorted(STR_POOLS)
        if file_safe:
            names = [x for x in names if x != "digitstr"]
        name = rng.choice(names)
        pool = STR_POOLS[name](n)
    while len(pool) < n:
        pool.append(("e%d" % len(pool)) if kind == "str" else 1000 + len(pool))
    return kind, name, pool[:n]


# ---------------------------------------------------------------------------------------------- datasets

def gen_ranking(rng: random.Random, pool: List, p_missing: float, p_tie: float, allow_empty: bool) -> List[List]:
    present = [e for e in pool if rng.random() >= p_missing]
    if not present and not allow_empty:
        present = [rng.choice(pool)]
    rng.shuffle(present)
    buckets: List[List] = []
    for e in present:
        if buckets and rng.random() < p_tie:
            buckets[-1].append(e)
        else:
            buckets.append([e])
    for b in buckets:
        rng.shuffle(b)  # insertion order inside the bucket
    return buckets


def gen_dataset(rng: random.Random, n_max: int = 6, m_max: int = 6, n_min: int = 1, kinds=("int", "str"),
                file_safe: bool = False, complete: bool = None, allow_empty: bool = True) -> dict:
    n = rng.randint(n_min, n_max)
    m = rng.randint(1, m_max)
    kind, pool_name, pool = pick_pool(rng, n, kinds, file_safe)
    if complete is None:
        complete = rng.random() < 0.3
    p_missing = 0.0 if complete else rng.choice([0.1, 0.2, 0.35, 0.5, 0.7])
    p_tie = rng.choice([0.0, 0.2, 0.4, 0.6, 0.9])
    rankings = [gen_ranking(rng, pool, p_missing, p_tie, allow_empty and not complete) for _ in range(m)]
    # duplicates are common in real data
    if m > 1 and rng.random() < 0.25:
        i, j = rng.randrange(m), rng.randrange(m)
        rankings[j] = [list(b) for b in rankings[i]]
        for b in rankings[j]:
            rng.shuffle(b)
    if allow_empty and not complete and rng.random() < 0.12:
        rankings.insert(rng.randrange(len(rankings) + 1), [])  # an empty ranking is a legal input
    if kind == "int" and not file_safe and "neg" not in pool_name and rng.random() < 0.08:
        # the same element written in several styles (7, "7", "07"): all names are integer-like, so the dataset is a
        # dataset of ints whatever the spelling; sometimes two spellings of one element share a bucket
        def style(v):
            r = rng.random()
            return v if r < 0.5 else str(v) if r < 0.8 else "0" + str(v)
        rankings = [[[style(e) for e in b] for b in r] for r in rankings]
        if rng.random() < 0.4:
            cand = [(i, j) for i, r in enumerate(rankings) for j, b in enumerate(r) if b]
            if cand:
                i, j = rng.choice(cand)
                e = rankings[i][j][0]
                rankings[i][j].append("0" + str(e) if not isinstance(e, str) else int(e))
        pool_name += "/style-mix"
    if not any(b for r in rankings for b in r):
        rankings[0] = [[pool[0]]]
    spec = {"rankings": rankings, "as_elements": rng.random() < 0.3,
            "ctor": rng.choice(["Dataset", "Dataset", "from_raw_list"]), "pool": pool_name}
    return spec


def gen_sparse_dataset(rng: random.Random, n_max: int = 6, m_max: int = 5) -> dict:
    """Datasets made of blocks: some rankings miss a whole group of elements (ParCons' interesting case)."""
    n = rng.randint(3, n_max)
    kind, pool_name, pool = pick_pool(rng, n)
    cut = rng.randint(1, n - 1)
    groups = [pool[:cut], pool[cut:]]
    m = rng.randint(2, m_max)
    rankings = []
    p_tie = rng.choice([0.0, 0.3, 0.6])
    for _ in range(m):
        mode = rng.random()
        if mode < 0.35:
            base = list(groups[0])
        elif mode < 0.7:
            base = list(groups[1])
        else:
            base = list(pool)
        if rng.random() < 0.3 and len(base) > 1:
            base.remove(rng.choice(base))
        r = gen_ranking(rng, base, 0.0, p_tie, False)
        # bias: group 0 before group 1 when both are present, so that components separate
        if mode >= 0.7 and rng.random() < 0.8:
            a = gen_ranking(rng, [e for e in base if e in groups[0]], 0.0, p_tie, True)
            b = gen_ranking(rng, [e for e in base if e in groups[1]], 0.0, p_tie, True)
            r = a + b
        rankings.append(r)
    return {"rankings": rankings, "as_elements": rng.random() < 0.3, "ctor": "Dataset", "pool": pool_name + "/sparse"}


def gen_cyclic_blocks_dataset(rng: random.Random, sizes=None, prefer_colliding: bool = False) -> dict:
    """Several blocks, each ranked as rotations of a cycle (a component that cannot be all tied), blocks always in
    the same order: ParCons gets several non-trivial components of different sizes (e.g. 4 then 3)."""
    sizes = sizes or rng.choice([[4, 3], [3, 4], [3, 3], [3], [4], [3, 2, 3]])
    n = sum(sizes)
    kind, pool_name, pool = pick_pool(rng, n)
    if prefer_colliding:
        # names whose set iteration order depends on insertion order / hash seed, and tie-heavy rankings
        pool_name = rng.choice(["collide8", "collide32", "multi", "words", "letters"])
        pool = (INT_POOLS.get(pool_name) or STR_POOLS[pool_name])(n)
        rng.shuffle(pool)
    if not prefer_colliding and rng.random() < 0.25:
        # str names where one whole block is integer-like ("07", "10", "2") next to alphabetic names: the block's
        # projection is a dataset of ints
        digits = ["07", "10", "2", "33", "5", "012", "8"]
        alpha = ["b", "x", "k", "zz", "q", "a1", "m"]
        which = rng.randrange(len(sizes))
        pool, pool_name = [], "mixeddigit-blocks"
        for bi, sz in enumerate(sizes):
            src = digits if bi == which else alpha
            pool += src[:sz]
            src[:] = src[sz:]
    blocks, at = [], 0
    for sz in sizes:
        blocks.append(pool[at:at + sz])
        at += sz
    m = rng.choice([3, 3, 4, 5])
    p_merge = rng.choice([0.5, 0.8]) if prefer_colliding else rng.choice([0.15, 0.15, 0.5, 0.8])
    # (the high values: elements first appear inside tied buckets)
    rankings = []
    for j in range(m):
        r = []
        for b in blocks:
            k = j % len(b)
            rot = b[k:] + b[:k]
            if rng.random() < 0.15 and len(rot) > 1:
                i = rng.randrange(len(rot) - 1)
                rot[i], rot[i + 1] = rot[i + 1], rot[i]
            part = [[e] for e in rot]
            if prefer_colliding and j == 0 and rng.random() < 0.6:
                # every element of the block makes its first appearance inside one tied bucket
                whole = list(rot)
                rng.shuffle(whole)
                cut = rng.randint(2, len(whole))
                part = [whole[:cut]] + [[e] for e in whole[cut:]]
            while rng.random() < p_merge and len(part) > 1:
                i = rng.randrange(len(part) - 1)
                merged = part[i] + part[i + 1]
                rng.shuffle(merged)
                part[i:i + 2] = [merged]
                if p_merge < 0.3:
                    break
            if rng.random() < 0.1:
                continue  # this ranking misses the whole block
            r += part
        rankings.append(r)
    if not any(b for r in rankings for b in r):
        rankings[0] = [[e] for e in pool]
    return {"rankings": rankings, "as_elements": rng.random() < 0.3, "ctor": "Dataset", "pool": pool_name + "/cyclic"}


# ---------------------------------------------------------------------------------------------- schemes

def _p(x):
    return float(x)


def preset(name: str, p: float = 1.0) -> dict:
    if name == "unifying":
        return {"B": [0., 1., p, 0., 1., p], "T": [p, p, 0., p, p, 0.]}
    if name == "pseudo":
        return {"B": [0., 1., p, 0., 1., 0.], "T": [p, p, 0., p, p, 0.]}
    if name == "induced":
        return {"B": [0., 1., p, 0., 0., 0.], "T": [p, p, 0., 0., 0., 0.]}
    if name == "extended":
        return {"B": [0., 1., 0., 0., 0., 0.], "T": [1., 1., 0., 1., 1., 1.]}
    raise ValueError(name)


PRESETS = ("unifying", "pseudo", "induced", "extended")


def scale(s: dict, k: float) -> dict:
    return {"B": [v * k for v in s["B"]], "T": [v * k for v in s["T"]]}


def gen_scheme(rng: random.Random, dyadic: bool = True) -> dict:
    """Valid scheme: B0=0, B1>0, B3<=B4, T0=T1, T2=0, T3=T4, all >= 0. Dyadic k/8 values keep sums exact."""
    s = _gen_scheme(rng, dyadic)
    if rng.random() < 0.12 and all(float(v).is_integer() for v in s["B"] + s["T"]):
        # penalties written as int literals are legal input ("real >= 0 values")
        s["B"] = [int(v) for v in s["B"]]
        s["T"] = [int(v) for v in s["T"]]
        s["family"] = s.get("family", "") + "/int-literals"
    return s


def _gen_scheme(rng: random.Random, dyadic: bool = True) -> dict:
    fam = rng.random()
    if not dyadic and rng.random() < 0.06:
        # near-equal penalties of ordinary size (differences of 4e-4 .. 5e-4): far above any solver tolerance, below
        # the 1e-3 thresholds a "robust" comparison might introduce
        d = rng.choice([4e-4, 5e-4, 3e-4])
        base = preset(rng.choice(["unifying", "pseudo", "induced"]), 1.0)
        s = {"B": list(base["B"]), "T": list(base["T"]), "family": "near-equal"}
        which = rng.choice(["B2", "T0", "B34", "B5"])
        if which == "B2":
            s["B"][2] += d
        elif which == "T0":
            s["T"][0] += d
            s["T"][1] += d
        elif which == "B34":
            s["B"][3], s["B"][4] = 0.2, 0.2 + d
        else:
            s["B"][5] = s["T"][5] + d
        return s
    if rng.random() < 0.1:
        # B of a preset (what the library's own equivalence test looks at) with a free valid T, and the converse
        base = preset(rng.choice(PRESETS), rng.choice([0.5, 1.0, 0.25]))
        vals = [0, 1, 2, 4, 8, 3] if dyadic else [0, 0.1, 0.3, 1, 0.7]
        div = 8.0 if dyadic else 1.0
        g = lambda: rng.choice(vals) / div
        if rng.random() < 0.7:
            t0, t3 = g(), g()
            s = {"B": base["B"], "T": [t0, t0, 0.0, t3, t3, g()], "family": "presetB-freeT"}
        else:
            b1 = 0
            while b1 == 0:
                b1 = g()
            b3, b4 = sorted([g(), g()])
            s = {"B": [0.0, b1, g(), b3, b4, g()], "T": base["T"], "family": "freeB-presetT"}
        return s
    if not dyadic and fam < 0.2:
        # near-degenerate: a tie costs almost exactly the same as an order (several optima a few 1e-6 apart)
        eps = rng.choice([4e-6, -3e-6, 2e-5, 7e-6])
        s = preset(rng.choice(["pseudo", "unifying", "induced"]), rng.choice([0.5, 1.0]) + eps)
        s["family"] = "preset-perturbed"
    elif fam < 0.35:
        s = preset(rng.choice(PRESETS), rng.choice([0.5, 1.0, 1.0, 0.25, 0.75]))
        s["family"] = "preset"
    elif fam < 0.5:
        s = scale(preset(rng.choice(PRESETS), rng.choice([0.5, 1.0])), rng.choice([2, 3, 0.5, 4, 0.25]))
        s["family"] = "preset-multiple"
    else:
        vals = [0, 1, 2, 4, 8, 8, 3, 12, 16, 5] if dyadic else [0, 0.1, 0.3, 1 / 3, 1, 0.7, 2.5]
        div = 8.0 if dyadic else 1.0
        g = lambda: rng.choice(vals) / div
        b1 = 0
        while b1 == 0:
            b1 = g()
        b3, b4 = sorted([g(), g()])
        t0, t3 = g(), g()
        s = {"B": [0.0, b1, g(), b3, b4, g()], "T": [t0, t0, 0.0, t3, t3, g()], "family": "free"}
        if rng.random() < 0.15:
            s["B"][2] = 0.0
            s["family"] = "free/B2=0"
        if rng.random() < 0.15:
            s["T"][0] = s["T"][1] = 0.0
            s["family"] = "free/T0=0"
        if rng.random() < 0.15:
            s["B"][3] = s["B"][4]
            s["family"] = "free/B3=B4"
    return s


def is_unifying_like(s: dict) -> bool:
    return s["B"][5] != s["T"][5]


# ---------------------------------------------------------------------------------------------- algorithms

SIMPLE_STARTERS = [{"alg": "BordaCount"}, {"alg": "BordaCount", "use_bucket_id": True}, {"alg": "CopelandMethod"},
                   {"alg": "KwikSortRandom"}, {"alg": "PickAPerm"}, {"alg": "BioCo"}]
AUXILIARIES = [{"alg": "BioConsert"}, {"alg": "BordaCount"}, {"alg": "KwikSortRandom"}, {"alg": "CopelandMethod"},
               {"alg": "BioCo"}]


def gen_starters(rng: random.Random, pool=None) -> List[dict]:
    pool = pool or SIMPLE_STARTERS
    if rng.random() < 0.2:
        # same class twice with different parameters / several randomised restarts: a list a user really writes
        base = rng.choice([[{"alg": "BordaCount"}, {"alg": "BordaCount", "use_bucket_id": True}],
                           [{"alg": "BordaCount", "use_bucket_id": True}, {"alg": "BordaCount"}],
                           [{"alg": "KwikSortRandom"}, {"alg": "KwikSortRandom"}, {"alg": "KwikSortRandom"}]])
        extra = [dict(rng.choice(pool))] if rng.random() < 0.3 else []
        return [dict(x) for x in base] + extra
    k = rng.choice([1, 1, 2, 3])
    return [dict(rng.choice(pool)) for _ in range(k)]


def gen_nested_bioconsert(rng: random.Random, depth: int = 2) -> dict:
    """BioConsert whose starters may themselves be BioConsert instances with their own starters (they all share the
    full name "BioConsert"), PickAPerm, Borda, ... - nested delegation of predicate and refusal."""
    starters = []
    for _ in range(rng.choice([1, 2, 2, 3])):
        r = rng.random()
        if depth > 0 and r < 0.45:
            starters.append(gen_nested_bioconsert(rng, depth - 1) if rng.random() < 0.7
                            else {"alg": "BioConsert", "starters": []})
        else:
            starters.append(dict(rng.choice(SIMPLE_STARTERS)))
    return {"alg": "BioConsert", "starters": starters}


def gen_alg(rng: random.Random, env: str, heavy_ok: bool = True) -> dict:
    """One of the user-facing algorithm configurations (+ back-end classes)."""
    names = ["BioConsert", "BioConsertStarters", "BioCo", "KwikSortRandom", "BordaCount", "BordaBucket",
             "CopelandMethod", "PickAPerm"]
    if heavy_ok:
        names += ["ExactAlgorithm", "ExactAlgorithmNoOpt", "ExactAlgorithmPulp", "ParCons", "ParConsAux"]
        if env == "present":
            names += ["ExactAlgorithmCplex", "ExactAlgorithmCplexNoOpt", "ExactAlgorithmCplexForPaperOptim1"]
    name = rng.choice(names)
    if name == "BioConsertStarters":
        return {"alg": "BioConsert", "starters": gen_starters(rng)}
    if name == "BordaBucket":
        return {"alg": "BordaCount", "use_bucket_id": True}
    if name == "ExactAlgorithmNoOpt":
        return {"alg": "ExactAlgorithm", "optimize": False}
    if name == "ExactAlgorithmCplexNoOpt":
        return {"alg": "ExactAlgorithmCplex", "optimize": False}
    if name == "ParCons":
        return {"alg": "ParCons"}
    if name == "ParConsAux":
        return {"alg": "ParCons", "aux": dict(rng.choice(AUXILIARIES)), "bound": rng.choice([0, 1, 2, 3, 80])}
    return {"alg": name}


def gen_huge_int_scheme(rng: random.Random) -> dict:
    """Int penalties of the order of 10**k that differ by one unit: every cost stays an exactly representable integer
    (< 2**53), so exact comparisons remain exact, while any relative tolerance swallows the difference."""
    base = 10 ** rng.choice([6, 9, 12])
    near = lambda: base * rng.choice([1, 1, 2, 3]) + rng.choice([-1, 0, 1])
    b1 = near()
    b3, b4 = sorted([near(), near()])
    t0, t3 = near(), near()
    return {"B": [0, b1, near(), b3, b4, near()], "T": [t0, t0, 0, t3, t3, near()], "family": "huge-near-equal-ints"}


def gen_mixed_magnitude_scheme(rng: random.Random) -> dict:
    """Int penalties spanning six orders of magnitude in one scheme (1 next to 10**6): every cost is an exact
    integer, while an absolute-plus-relative tolerance scaled on the large costs swallows the small ones."""
    big = 10 ** rng.choice([3, 6, 6])
    v = lambda: rng.choice([0, 1, 1, 2, big, big])
    b3, b4 = sorted([v(), v()])
    t0, t3 = v(), v()
    return {"B": [0, rng.choice([1, 1, 2, big]), v(), b3, b4, v()], "T": [t0, t0, 0, t3, t3, v()],
            "family": "mixed-magnitude-ints"}


def gen_mutation(rng: random.Random) -> dict:
    """An in-place edit of a shared Dataset between two operations of a history."""
    return {"mutate": rng.choice(["remove_elements", "remove_empty", "remove_empty", "remove_rate"]),
            "pick": [rng.randrange(64)], "rate": rng.choice([0.0, 0.3, 0.5])}


def gen_sched(rng: random.Random) -> dict:
    from .sched import Sched
    pol = rng.choice(["uniform", "uniform", "first", "last", "mid", "alt"])
    return {"draws": [], "fallback": pol, "seed": rng.getrandbits(32)}
