"""Bridge between JSON case specs and corankco objects (the code under test is imported only here and in the
seams). Every object is built from an explicit spec so that a case file alone reproduces a run."""
from typing import Any, List, Tuple

from . import HarnessError

import corankco
from corankco.dataset import Dataset, EmptyDatasetException
from corankco.ranking import Ranking
from corankco.element import Element
from corankco.scoringscheme import ScoringScheme
from corankco.consensus import Consensus, ConsensusFeature
from corankco.kemeny_score_computation import KemenyComputingFactory, InvalidRankingsForComputingDistance
from corankco.algorithms.rank_aggregation_algorithm import RankAggAlgorithm, ScoringSchemeNotHandledException
from corankco.algorithms.exact.exactalgorithmbase import IncompatibleArgumentsException
from corankco.algorithms.pickaperm.pickaperm import InompleteRankingsIncompatibleWithScoringSchemeException
from corankco.algorithms.exact.exactalgorithm import ExactAlgorithm
from corankco.algorithms.exact.exactalgorithmpulp import ExactAlgorithmPulp
from corankco.algorithms.exact.exactalgorithmcplex import ExactAlgorithmCplex
from corankco.algorithms.exact.exactalgorithmcplexforpaperoptim1 import ExactAlgorithmCplexForPaperOptim1
from corankco.algorithms.parcons.parcons import ParCons
from corankco.algorithms.bioconsert.bioconsert import BioConsert
from corankco.algorithms.bioconsert.bioco import BioCo
from corankco.algorithms.kwiksort.kwiksortrandom import KwikSortRandom
from corankco.algorithms.borda.borda import BordaCount
from corankco.algorithms.copeland.copeland import CopelandMethod
from corankco.algorithms.pickaperm.pickaperm import PickAPerm
from corankco.algorithms.pairwisebasedalgorithm import PairwiseBasedAlgorithm
from corankco.partitioning.ordered_partition import OrderedPartition

REFUSALS = (ScoringSchemeNotHandledException, InompleteRankingsIncompatibleWithScoringSchemeException,
            IncompatibleArgumentsException)


def assert_repo_tree() -> None:
    import os
    p = os.path.realpath(corankco.__file__)
    root = os.path.realpath(os.environ.get("CORSIM_REPO", "/repo")) + os.sep
    if not p.startswith(root):
        raise HarnessError(f"corankco imported from {p}, not from the working tree {root}")


# ---------------------------------------------------------------------------------------------- elements

def key_of(e) -> Any:
    """Model key of a library element (int or str, type-preserving)."""
    if isinstance(e, Element):
        v = e.value
        if e.type is int and not isinstance(v, int):
            raise HarnessError("element typed int with non-int value")
        return v
    return e


def build_bucket(items: List, as_elements: bool) -> set:
    """A set built by inserting members in the recorded order (insertion order is part of the case)."""
    s = set()
    for x in items:
        s.add(Element(x) if as_elements else x)
    return s


def build_rankings(spec: dict) -> List[Ranking]:
    as_el = bool(spec.get("as_elements", False))
    return [Ranking([build_bucket(b, as_el) for b in r]) for r in spec["rankings"]]


def build_dataset(spec: dict) -> Dataset:
    how = spec.get("ctor", "Dataset")
    as_el = bool(spec.get("as_elements", False))
    if how == "from_raw_list":
        return Dataset.from_raw_list([[build_bucket(b, as_el) for b in r] for r in spec["rankings"]],
                                     name=spec.get("name", ""))
    ds = Dataset(build_rankings(spec))
    if "name" in spec:
        ds.name = spec["name"]
    return ds


def build_scheme(spec: dict) -> ScoringScheme:
    return ScoringScheme([list(spec["B"]), list(spec["T"])])


# ---------------------------------------------------------------------------------------------- algorithms

class Spy(RankAggAlgorithm):
    """Forwards to a real algorithm instance and records every call (peer observed without a source hook)."""

    def __init__(self, inner: RankAggAlgorithm):
        self.inner = inner
        self.calls: List[dict] = []

    def compute_consensus_rankings(self, dataset, scoring_scheme, return_at_most_one_ranking=True, bench_mode=False):
        rec = {"dataset": dataset, "one": return_at_most_one_ranking, "result": None, "exc": None}
        self.calls.append(rec)
        try:
            res = self.inner.compute_consensus_rankings(dataset, scoring_scheme, return_at_most_one_ranking,
                                                        bench_mode)
        except Exception as exc:
            rec["exc"] = exc
            raise
        rec["result"] = res
        return res

    def get_full_name(self) -> str:
        return self.inner.get_full_name()

    def is_scoring_scheme_relevant_when_incomplete_rankings(self, scoring_scheme) -> bool:
        return self.inner.is_scoring_scheme_relevant_when_incomplete_rankings(scoring_scheme)


def build_alg(spec: dict, spies: List[Spy] = None, spy_nested: bool = False) -> RankAggAlgorithm:
    """spec: {"alg": name, ...params}. Nested algorithms (starters, aux) are wrapped in Spy when spy_nested."""
    name = spec["alg"]

    def nested(s):
        a = build_alg(s, spies, spy_nested)
        if spy_nested:
            a = Spy(a)
            if spies is not None:
                spies.append(a)
        return a

    if name == "ExactAlgorithm":
        return ExactAlgorithm(optimize=spec.get("optimize", True))
    if name == "ExactAlgorithmPulp":
        return ExactAlgorithmPulp()
    if name == "ExactAlgorithmCplex":
        return ExactAlgorithmCplex(optimize=spec.get("optimize", True))
    if name == "ExactAlgorithmCplexForPaperOptim1":
        return ExactAlgorithmCplexForPaperOptim1()
    if name == "ParCons":
        aux = nested(spec["aux"]) if spec.get("aux") else None
        return ParCons(auxiliary_algorithm=aux, bound_for_exact=spec.get("bound"))
    if name == "BioConsert":
        st = spec.get("starters")
        return BioConsert(starting_algorithms=[nested(s) for s in st] if st else None)
    if name == "BioCo":
        return BioCo()
    if name == "KwikSortRandom":
        return KwikSortRandom()
    if name == "BordaCount":
        return BordaCount(use_bucket_id=spec.get("use_bucket_id", False))
    if name == "CopelandMethod":
        return CopelandMethod()
    if name == "PickAPerm":
        return PickAPerm()
    raise HarnessError(f"unknown algorithm spec {spec}")


def alg_label(spec: dict) -> str:
    name = spec["alg"]
    if name in ("ExactAlgorithm", "ExactAlgorithmCplex"):
        return f"{name}(optimize={spec.get('optimize', True)})"
    if name == "ParCons":
        aux = alg_label(spec["aux"]) if spec.get("aux") else "default"
        return f"ParCons(bound={spec.get('bound')},aux={aux})"
    if name == "BioConsert":
        st = spec.get("starters")
        return "BioConsert([" + ",".join(alg_label(s) for s in st) + "])" if st else "BioConsert()"
    if name == "BordaCount":
        return f"BordaCount(use_bucket_id={spec.get('use_bucket_id', False)})"
    return name + "()"


def uses_exact(spec: dict) -> bool:
    return spec["alg"].startswith("Exact") or spec["alg"] == "ParCons"


def uses_random(spec: dict) -> bool:
    if spec["alg"] == "KwikSortRandom":
        return True
    subs = list(spec.get("starters") or []) + ([spec["aux"]] if spec.get("aux") else [])
    return any(uses_random(s) for s in subs)


# ---------------------------------------------------------------------------------------------- canonical forms

def canon_ranking(r) -> Tuple[frozenset, ...]:
    """Library ranking (Ranking or list of sets) -> model ranking, from its *buckets*."""
    buckets = r.buckets if isinstance(r, Ranking) else r
    return tuple(frozenset(key_of(e) for e in b) for b in buckets)


def canon_rankings(rs) -> List[Tuple[frozenset, ...]]:
    return [canon_ranking(r) for r in rs]


def jsonable_ranking(mr) -> list:
    from .model import sort_key
    return [sorted(b, key=sort_key) for b in mr]


def call(fn, *args, **kwargs):
    """(True, value) or (False, exception); harness errors always propagate."""
    try:
        return True, fn(*args, **kwargs)
    except HarnessError:
        raise
    except Exception as exc:  # noqa: the library's failures are data for the oracles
        return False, exc   # BaseExceptions (SimCrash, StepBudgetExceeded, KeyboardInterrupt) propagate


def exc_label(exc: BaseException) -> str:
    return type(exc).__name__
