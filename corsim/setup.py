"""Offline setup: nothing to download or build. Verifies the interpreter, the solver binary and the peers, and
warms the content-keyed numba cache so that the first check does not pay the JIT cost."""
import os
import subprocess
import sys


def main() -> int:
    from . import driver
    from .runner import cell_of
    os.makedirs(os.path.join(driver.VERIF, "evidence"), exist_ok=True)
    os.makedirs(os.path.join(driver.VERIF, "replays"), exist_ok=True)
    ok = True
    for env in ("absent", "broken", "present"):
        try:
            c = driver.Cell({"index": 0, "hashseed": 1, "env": env})
            c.close()
            print(f"cell env={env}: ok")
        except Exception as exc:
            ok = False
            print(f"cell env={env}: FAILED {exc}")
    try:
        import pulp
        path = pulp.PULP_CBC_CMD().path
        out = subprocess.run([path, "-quit"], capture_output=True, text=True, timeout=60)
        print("cbc:", path, "rc", out.returncode)
    except Exception as exc:
        ok = False
        print("cbc: FAILED", exc)
    return 0 if ok else 1


if __name__ == "__main__":
    sys.exit(main())
