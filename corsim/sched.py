"""RNG seam: every pseudo-random draw of the library is a decision of the simulator's scheduler.

The library imports `choice` into corankco.algorithms.kwiksort.kwiksortrandom and `shuffle`, `randint`
into corankco.ranking with `from random import ...`; the names are looked up in the module globals at call
time, so rebinding them is enough (no source hook).

A schedule is `draws` (list of ints, consumed in order, each taken modulo the arity of the decision) followed
by a `fallback` policy once the list is exhausted. Recorded traces are therefore always applicable, also
after the workload was shrunk, which is what makes minimisation possible.
"""
import random
from typing import List, Optional

from . import HarnessError


class Sched:
    POLICIES = ("uniform", "first", "last", "mid", "alt", "bias1", "bias2", "bias3", "bias4", "bias5")

    def __init__(self, draws: Optional[List[int]] = None, fallback: str = "uniform", seed: int = 0):
        self.draws = list(draws or [])
        self.fallback = fallback
        self.seed = seed
        self._rng = random.Random(seed)
        self._i = 0
        self.trace: List[list] = []  # [site, arity, pick]
        self._alt = 0

    def pick(self, site: str, arity: int) -> int:
        if arity <= 0:
            raise IndexError("empty choice")  # what random.choice does on an empty sequence
        if self._i < len(self.draws):
            idx = self.draws[self._i] % arity
        else:
            idx = self._policy(site, arity)
        self._i += 1
        global total_picks
        total_picks += 1
        self.trace.append([site, arity, idx])
        return idx

    def _policy(self, site: str, arity: int) -> int:
        pol = self.fallback
        if pol == "uniform":
            return self._rng.randrange(arity)
        if pol == "first":
            return 0
        if pol == "last":
            return arity - 1
        if pol == "mid":
            return arity // 2
        if pol == "alt":
            self._alt ^= 1
            return 0 if self._alt else arity - 1
        if pol.startswith("bias"):
            # Markov chain: favour one move kind (the `alea` draw has arity 4 or 5) for long stretches
            k = int(pol[4:]) - 1
            if site == "randint" and arity in (4, 5) and k < arity and self._rng.random() < 0.7:
                return k
            return self._rng.randrange(arity)
        raise HarnessError(f"unknown policy {pol}")

    def picks(self) -> List[int]:
        return [t[2] for t in self.trace]

    def spec(self) -> dict:
        return {"draws": list(self.draws), "fallback": self.fallback, "seed": self.seed}

    @staticmethod
    def from_spec(spec: Optional[dict]) -> "Sched":
        spec = spec or {}
        return Sched(spec.get("draws"), spec.get("fallback", "first"), spec.get("seed", 0))


total_picks = 0
_current: Optional[Sched] = None
_installed = False
draw_observers = []  # callables (site, seq_or_bounds, pick) -> None, used by property checks


def set_current(s: Optional[Sched]) -> None:
    global _current
    _current = s


def current() -> Sched:
    if _current is None:
        raise HarnessError("random draw outside a simulated run")
    return _current


def sim_choice(seq):
    idx = current().pick("choice", len(seq))
    for obs in draw_observers:
        obs("choice", seq, idx)
    return seq[idx]


def sim_randint(a, b):
    if b < a:
        raise ValueError(f"empty range for randrange() ({a}, {b + 1}, {b + 1 - a})")  # as random.randint does
    idx = current().pick("randint", b - a + 1)
    for obs in draw_observers:
        obs("randint", (a, b), idx)
    return a + idx


def sim_shuffle(lst):
    s = current()
    for i in range(len(lst) - 1, 0, -1):
        j = s.pick("shuffle", i + 1)
        lst[i], lst[j] = lst[j], lst[i]
    for obs in draw_observers:
        obs("shuffle", lst, -1)


def install() -> None:
    """Rebind the library's imported random functions to the scheduler. Idempotent."""
    global _installed
    import corankco.ranking as rk
    import corankco.algorithms.kwiksort.kwiksortrandom as ks
    for mod, names in ((ks, ("choice",)), (rk, ("shuffle", "randint"))):
        for n in names:
            if not hasattr(mod, n):
                raise HarnessError(f"RNG seam: {mod.__name__} no longer has a module-level `{n}`; "
                                   f"the seam must be re-anchored")
    ks.choice = sim_choice
    rk.shuffle = sim_shuffle
    rk.randint = sim_randint
    _installed = True


def guard_global_random() -> None:
    """Make any use of the *global* random module by the library (a seam we do not own) loud.

    If the library starts drawing through `random.xxx` attribute access instead of the imported names, the
    draws would escape the scheduler and replay would silently break. We poison the module-level functions
    of `random` for the duration of a cell; our own code only uses random.Random instances.
    """
    def _boom(name):
        def f(*a, **k):
            raise HarnessError(f"unscheduled draw through random.{name} - a new RNG seam is needed")
        return f
    for n in ("random", "randint", "choice", "shuffle", "randrange", "sample", "uniform", "choices", "getrandbits"):
        setattr(random, n, _boom(n))
    try:
        import numpy.random as npr
        for n in ("rand", "randint", "random", "choice", "shuffle", "permutation"):
            setattr(npr, n, _boom("numpy." + n))
    except Exception:  # pragma: no cover
        pass
