"""corsim - deterministic simulation with fault injection for corankco.

One integer (VERIF_SEED) decides every choice. See /verif/DESIGN.md.
"""

GUARD = "CORANKCO_VERIF"


class HarnessError(Exception):
    """Something is wrong with the machinery itself (never a property verdict)."""
