"""Generic structural minimisation of a case (delta debugging over its lists, datasets, schemes, schedules).

A candidate is accepted only if the same clause of the same property still fails when the candidate is executed
in a worker of the same cell (hash seed + environment)."""
import copy
import time
from typing import Callable, Iterator, Tuple

from .gen import preset, PRESETS

LIST_KEYS = ("ops", "scheds", "algs", "faults", "history", "variants", "texts", "calls", "starters", "parcons",
             "others", "reads", "configs", "strings")


def _walk(obj, path=()):
    """Yield (path, value) for every dict/list node."""
    yield path, obj
    if isinstance(obj, dict):
        for k in sorted(obj):
            if k.startswith("_"):
                continue
            yield from _walk(obj[k], path + (k,))
    elif isinstance(obj, list):
        for i, v in enumerate(obj):
            if isinstance(v, (dict, list)):
                yield from _walk(v, path + (i,))


def _get(obj, path):
    for p in path:
        obj = obj[p]
    return obj


def _with(case, path, value):
    new = copy.deepcopy(case)
    if not path:
        return value
    parent = _get(new, path[:-1])
    parent[path[-1]] = value
    return new


def _dataset_candidates(ds: dict) -> Iterator[Tuple[str, dict]]:
    rk = ds["rankings"]
    # drop a ranking
    if len(rk) > 1:
        for i in range(len(rk)):
            yield f"drop ranking {i}", dict(ds, rankings=rk[:i] + rk[i + 1:])
    # drop an element everywhere
    elems = []
    for r in rk:
        for b in r:
            for e in b:
                if e not in elems:
                    elems.append(e)
    if len(elems) > 1:
        for e in elems:
            new = [[[x for x in b if x != e] for b in r] for r in rk]
            new = [[b for b in r if b] for r in new]
            if any(b for r in new for b in r):
                yield f"drop element {e!r}", dict(ds, rankings=new)
    # drop an element from one ranking
    for i, r in enumerate(rk):
        for j, b in enumerate(r):
            for e in b:
                nr = [list(x) for x in r]
                nr[j] = [x for x in nr[j] if x != e]
                nr = [x for x in nr if x]
                new = rk[:i] + [nr] + rk[i + 1:]
                if any(b2 for r2 in new for b2 in r2):
                    yield f"drop {e!r} from ranking {i}", dict(ds, rankings=new)
    # split a bucket into singletons / merge two neighbours
    for i, r in enumerate(rk):
        for j, b in enumerate(r):
            if len(b) > 1:
                nr = r[:j] + [[x] for x in b] + r[j + 1:]
                yield f"split bucket {i}.{j}", dict(ds, rankings=rk[:i] + [nr] + rk[i + 1:])
                yield f"sort bucket {i}.{j}", dict(ds, rankings=rk[:i] + [r[:j] + [sorted(b, key=str)] + r[j + 1:]] + rk[i + 1:])
    # plain construction knobs
    if ds.get("as_elements"):
        yield "raw members", dict(ds, as_elements=False)
    if ds.get("ctor", "Dataset") != "Dataset":
        yield "plain ctor", dict(ds, ctor="Dataset")


def _scheme_candidates(s: dict) -> Iterator[Tuple[str, dict]]:
    for name in PRESETS:
        for p in (1.0, 0.5):
            c = preset(name, p)
            if c["B"] != s["B"] or c["T"] != s["T"]:
                yield f"scheme -> {name}({p})", c
    # move single penalties to 0 / 1
    for vec in ("B", "T"):
        for i in range(6):
            for v in (0.0, 1.0):
                if s[vec][i] != v:
                    c = {"B": list(s["B"]), "T": list(s["T"])}
                    c[vec][i] = v
                    if vec == "T" and i in (0, 1):
                        c["T"][0] = c["T"][1] = v
                    if vec == "T" and i in (3, 4):
                        c["T"][3] = c["T"][4] = v
                    if _valid_scheme(c):
                        yield f"{vec}[{i}] -> {v}", c


def _valid_scheme(c) -> bool:
    B, T = c["B"], c["T"]
    return B[0] == 0 and B[1] > 0 and B[3] <= B[4] and T[0] == T[1] and T[2] == 0 and T[3] == T[4] \
        and all(v >= 0 for v in B + T)


def _sched_candidates(s: dict) -> Iterator[Tuple[str, dict]]:
    d = s.get("draws") or []
    if s.get("fallback", "first") != "first":
        yield "fallback first", dict(s, fallback="first")
    if d:
        yield "no draws", dict(s, draws=[])
        yield "half draws", dict(s, draws=d[:len(d) // 2])
        yield "drop last draw", dict(s, draws=d[:-1])
        for i, v in enumerate(d):
            if v != 0:
                yield f"draw {i} -> 0", dict(s, draws=d[:i] + [0] + d[i + 1:])


def candidates(case: dict) -> Iterator[Tuple[str, dict]]:
    nodes = list(_walk(case))
    # 1. lists of operations / schedules / algorithms / faults: drop halves then singles
    for path, v in nodes:
        if path and path[-1] in LIST_KEYS and isinstance(v, list) and v:
            n = len(v)
            if n > 3:
                yield f"{path}: first half", _with(case, path, v[:n // 2])
                yield f"{path}: second half", _with(case, path, v[n // 2:])
            min_len = 0 if path[-1] in ("faults", "starters", "others", "parcons", "strings", "texts") else 1
            if n > min_len:
                for i in range(n - 1, -1, -1):
                    yield f"{path}: drop {i}", _with(case, path, v[:i] + v[i + 1:])
    # 2. datasets
    for path, v in nodes:
        if isinstance(v, dict) and isinstance(v.get("rankings"), list):
            for desc, c in _dataset_candidates(v):
                yield f"{path}: {desc}", _with(case, path, c)
    # 3. schedules
    for path, v in nodes:
        if isinstance(v, dict) and "fallback" in v and "draws" in v:
            for desc, c in _sched_candidates(v):
                yield f"{path}: {desc}", _with(case, path, c)
    # 4. schemes
    for path, v in nodes:
        if isinstance(v, dict) and "B" in v and "T" in v and isinstance(v["B"], list):
            for desc, c in _scheme_candidates(v):
                yield f"{path}: {desc}", _with(case, path, dict(v, **c))
    # 5. booleans / small ints toward False / 0
    for path, v in nodes:
        if isinstance(v, dict):
            for k in sorted(v):
                if k.startswith("_"):
                    continue
                if v[k] is True and k not in ("as_elements",):
                    yield f"{path + (k,)}: False", _with(case, path + (k,), False)


def minimise(case: dict, still_fails: Callable[[dict], bool], budget_s: float, extra=None) -> Tuple[dict, int, bool]:
    """Greedy fixpoint. Returns (case, accepted steps, hit_budget)."""
    from .seed import digest
    t_end = time.monotonic() + budget_s
    steps = 0
    seen = {digest(case)}
    improved = True
    while improved:
        improved = False
        gens = [candidates(case)]
        if extra:
            gens.append(extra(case))
        for g in gens:
            for _, cand in g:
                if time.monotonic() > t_end:
                    return case, steps, True
                dg = digest(cand)
                if dg in seen:
                    continue
                seen.add(dg)
                try:
                    if still_fails(cand):
                        case = cand
                        steps += 1
                        improved = True
                        break
                except Exception:
                    continue
            if improved:
                break
    return case, steps, False
