"""Reference models (oracles). Written from the property statements and the ScoringScheme docstring; nothing
here imports corankco.

Element keys: a Python int or str (after the dataset-wide normalisation rule: all int when every name is
integer-like, else all str). A ranking is a tuple of frozensets of keys. A dataset model is a list of rankings.
"""
from functools import lru_cache
from itertools import combinations
from typing import Dict, List, Sequence, Tuple

import numpy as np

Key = object
MRanking = Tuple[frozenset, ...]


# ---------------------------------------------------------------------------------------------- datasets

def int_like(v) -> bool:
    if isinstance(v, bool):
        return False
    if isinstance(v, int):
        return True
    return isinstance(v, str) and v.isdigit()


def normalise(raw_rankings: Sequence[Sequence[Sequence]]) -> List[MRanking]:
    """Dataset-wide typing rule of C16: all int when every name is integer-like, else all strings."""
    all_int = all(int_like(e) for r in raw_rankings for b in r for e in b)
    conv = (lambda e: int(str(e))) if all_int else (lambda e: str(e))
    return [tuple(frozenset(conv(e) for e in b) for b in r) for r in raw_rankings]


def renorm(rankings: Sequence[MRanking]) -> List[MRanking]:
    """Re-apply the typing rule to a derived dataset (a projection of mixed names may be all integer-like)."""
    return normalise([[list(b) for b in r] for r in rankings])


def sort_key(k):
    return (0, k, "") if isinstance(k, int) else (1, 0, k)


def universe(rankings: Sequence[MRanking]) -> List:
    u = set()
    for r in rankings:
        for b in r:
            u |= b
    return sorted(u, key=sort_key)


def domain(r: MRanking) -> frozenset:
    d = set()
    for b in r:
        d |= b
    return frozenset(d)


def is_complete(rankings: Sequence[MRanking]) -> bool:
    u = frozenset(universe(rankings))
    return all(domain(r) == u for r in rankings)


def without_ties(rankings: Sequence[MRanking]) -> bool:
    return all(len(b) <= 1 for r in rankings for b in r)


def positions_of(r: MRanking) -> Dict:
    """position = 1 + number of elements in earlier buckets"""
    out, pos = {}, 1
    for b in r:
        for e in b:
            out[e] = pos
        pos += len(b)
    return out


def bucket_of(r: MRanking) -> Dict:
    return {e: i for i, b in enumerate(r) for e in b}


def unify(rankings: Sequence[MRanking]) -> List[MRanking]:
    u = frozenset(universe(rankings))
    out = []
    for r in rankings:
        missing = u - domain(r)
        out.append(tuple(r) + ((frozenset(missing),) if missing else ()))
    return out


def project(rankings: Sequence[MRanking], keep) -> List[MRanking]:
    keep = frozenset(keep)
    out = []
    for r in rankings:
        pr = tuple(b & keep for b in r if b & keep)
        if pr:
            out.append(pr)
    return out


def remove(rankings: Sequence[MRanking], gone) -> List[MRanking]:
    gone = frozenset(gone)
    out = []
    for r in rankings:
        pr = tuple(b - gone for b in r if b - gone)
        if pr:
            out.append(pr)
    return out


def multiset(rankings: Sequence[MRanking]):
    from collections import Counter
    return Counter(rankings)


def canon(rankings: Sequence[MRanking]) -> list:
    """JSON-able canonical form (lists of sorted lists)."""
    return [[sorted(b, key=sort_key) for b in r] for r in rankings]


# ---------------------------------------------------------------------------------------------- scoring

def status(bk: Dict, x, y) -> int:
    """Status of the ordered pair (x, y) in an input ranking given by its element->bucket map."""
    bx, by = bk.get(x), bk.get(y)
    if bx is not None and by is not None:
        if bx < by:
            return 0
        if bx > by:
            return 1
        return 2
    if bx is not None:
        return 3
    if by is not None:
        return 4
    return 5


def ref_score(candidate: MRanking, rankings: Sequence[MRanking], B: Sequence[float], T: Sequence[float]) -> float:
    """The double sum of C01's statement: over input rankings and unordered pairs of candidate elements."""
    cb = bucket_of(candidate)
    elems = sorted(cb, key=sort_key)
    total = 0.0
    for r in rankings:
        bk = bucket_of(r)
        for x, y in combinations(elems, 2):
            if cb[x] < cb[y]:
                total += B[status(bk, x, y)]
            elif cb[x] > cb[y]:
                total += B[status(bk, y, x)]
            else:
                total += T[status(bk, x, y)]
    return total


def ref_cost(rankings: Sequence[MRanking], elems: Sequence, B, T) -> np.ndarray:
    """cost[i][j] = (before, after, tied): total penalty of placing elems[i] before / after / tied with elems[j]."""
    n = len(elems)
    cost = np.zeros((n, n, 3))
    bks = [bucket_of(r) for r in rankings]
    for i in range(n):
        for j in range(n):
            if i == j:
                continue
            x, y = elems[i], elems[j]
            be = af = ti = 0.0
            for bk in bks:
                be += B[status(bk, x, y)]
                af += B[status(bk, y, x)]
                ti += T[status(bk, x, y)]
            cost[i][j] = (be, af, ti)
    return cost


def score_from_cost(cand_bucket_ids: Sequence[int], cost: np.ndarray) -> float:
    n = len(cand_bucket_ids)
    s = 0.0
    for i in range(n):
        for j in range(i + 1, n):
            if cand_bucket_ids[i] < cand_bucket_ids[j]:
                s += cost[i][j][0]
            elif cand_bucket_ids[i] > cand_bucket_ids[j]:
                s += cost[i][j][1]
            else:
                s += cost[i][j][2]
    return s


# ---------------------------------------------------------------------------------------------- optimum

@lru_cache(maxsize=None)
def weak_orders(n: int) -> np.ndarray:
    """All rankings with ties of n items as bucket-id vectors, shape (Fubini(n), n). 541/4683/47293 for 5/6/7."""
    if n == 0:
        return np.zeros((1, 0), dtype=np.int8)
    res = []

    def rec(i, vec, nb):
        # vec: bucket ids of items 0..i-1 using ids 0..nb-1 as an *ordered* partition built by insertion
        if i == n:
            res.append(tuple(vec))
            return
        # put item i into an existing bucket
        for b in range(nb):
            rec(i + 1, vec + [b], nb)
        # or into a new bucket inserted at position p (0..nb): shift ids >= p
        for p in range(nb + 1):
            rec(i + 1, [v + 1 if v >= p else v for v in vec] + [p], nb + 1)

    rec(0, [], 0)
    arr = np.array(sorted(set(res)), dtype=np.int8)
    return arr


def score_all(cost: np.ndarray) -> Tuple[np.ndarray, np.ndarray]:
    """Scores of every weak order of the universe (vectorised). Returns (orders, scores)."""
    n = cost.shape[0]
    wo = weak_orders(n)
    sc = np.zeros(len(wo))
    for i in range(n):
        for j in range(i + 1, n):
            pi, pj = wo[:, i], wo[:, j]
            sc += np.where(pi < pj, cost[i][j][0], np.where(pi > pj, cost[i][j][1], cost[i][j][2]))
    return wo, sc


def opt_value_dp(cost: np.ndarray) -> float:
    """Subset DP: f(S) = min over non-empty first bucket A of S: tied(A) + before(A, S-A) + f(S-A)."""
    n = cost.shape[0]
    full = (1 << n) - 1
    tie = [0.0] * (1 << n)
    for m in range(1, 1 << n):
        low = (m & -m).bit_length() - 1
        rest = m & (m - 1)
        t = tie[rest]
        r = rest
        while r:
            j = (r & -r).bit_length() - 1
            t += cost[low][j][2]
            r &= r - 1
        tie[m] = t
    # bef[a][mask] = sum_{b in mask} before(a, b)
    bef = [[0.0] * (1 << n) for _ in range(n)]
    for a in range(n):
        row = bef[a]
        for m in range(1, 1 << n):
            low = (m & -m).bit_length() - 1
            row[m] = row[m & (m - 1)] + (cost[a][low][0] if low != a else 0.0)
    f = [0.0] * (1 << n)
    for s in range(1, full + 1):
        best = float("inf")
        a = s
        while a:
            rest = s & ~a
            c = tie[a] + f[rest]
            if c < best:
                r = a
                while r:
                    i = (r & -r).bit_length() - 1
                    c += bef[i][rest]
                    r &= r - 1
                if c < best:
                    best = c
            a = (a - 1) & s
        f[s] = best
    return f[full]


def optimum(cost: np.ndarray, want_minimisers: bool = True, tol: float = 1e-9):
    """(opt value, list of minimiser bucket-id vectors or None)."""
    n = cost.shape[0]
    if n <= 7:
        wo, sc = score_all(cost)
        best = float(sc.min())
        mins = [tuple(int(v) for v in w) for w in wo[sc <= best + tol]] if want_minimisers else None
        return best, mins
    return opt_value_dp(cost), None


def vec_to_ranking(vec: Sequence[int], elems: Sequence) -> MRanking:
    nb = max(vec) + 1 if len(vec) else 0
    bs = [set() for _ in range(nb)]
    for e, b in zip(elems, vec):
        bs[b].add(e)
    return tuple(frozenset(b) for b in bs)


def ranking_to_vec(r: MRanking, elems: Sequence) -> Tuple[int, ...]:
    bk = bucket_of(r)
    return tuple(bk[e] for e in elems)


# ---------------------------------------------------------------------------------------------- KwikSort

def kwik_decision(cost: np.ndarray, other: int, pivot: int) -> int:
    """-1 / 0 / 1: `other` before / tied with / after `pivot`. Tie preferred on equal cost, then before."""
    before, after, tied = cost[other][pivot]
    if tied <= before and tied <= after:
        return 0
    if before <= after:
        return -1
    return 1


def ref_kwiksort(elems_idx: Sequence[int], cost: np.ndarray, pivot_of) -> List[List[int]]:
    """Three-way partition recursion; `pivot_of(frozenset(indices))` supplies the recorded pivot of a step."""
    out: List[List[int]] = []

    def rec(rem: List[int]):
        pivot = pivot_of(frozenset(rem))
        before, same, after = [], [pivot], []
        for e in rem:
            if e == pivot:
                continue
            d = kwik_decision(cost, e, pivot)
            (before if d < 0 else after if d > 0 else same).append(e)
        if len(before) == 1:
            out.append(before)
        elif before:
            rec(before)
        out.append(same)
        if len(after) == 1:
            out.append(after)
        elif after:
            rec(after)

    rec(list(elems_idx))
    return out


def coherent_weak_order(cost: np.ndarray):
    """If the cheapest placements are antisymmetric and form a ranking with ties, return its bucket-id vector."""
    n = cost.shape[0]
    d = [[0] * n for _ in range(n)]
    for i in range(n):
        for j in range(n):
            if i != j:
                d[i][j] = kwik_decision(cost, i, j)
    for i in range(n):
        for j in range(i + 1, n):
            if d[i][j] != -d[j][i]:
                return None
    # weak order test: "tied" must be an equivalence, "before" transitive and compatible with ties
    nb_before = [sum(1 for j in range(n) if j != i and d[j][i] < 0) for i in range(n)]
    levels = sorted(set(nb_before))
    vec = [levels.index(v) for v in nb_before]
    for i in range(n):
        for j in range(n):
            if i == j:
                continue
            want = -1 if vec[i] < vec[j] else 1 if vec[i] > vec[j] else 0
            if d[i][j] != want:
                return None
    return tuple(vec)


# ---------------------------------------------------------------------------------------------- local moves

def neighbourhood(r: MRanking):
    """All rankings obtained by moving one element into another existing bucket or a new bucket anywhere."""
    r = [set(b) for b in r]
    seen = set()
    base = tuple(frozenset(b) for b in r)
    for bi, b in enumerate(r):
        for e in b:
            rest = [set(x) for x in r]
            rest[bi].discard(e)
            rest = [x for x in rest if x]
            # into an existing bucket
            for k in range(len(rest)):
                cand = [set(x) for x in rest]
                cand[k].add(e)
                t = tuple(frozenset(x) for x in cand)
                if t != base and t not in seen:
                    seen.add(t)
                    yield e, t
            # as a new bucket at any position
            for k in range(len(rest) + 1):
                cand = [set(x) for x in rest]
                cand.insert(k, {e})
                t = tuple(frozenset(x) for x in cand)
                if t != base and t not in seen:
                    seen.add(t)
                    yield e, t
