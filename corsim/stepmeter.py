"""Deterministic step meter: counts traced line events inside the library's pure-Python parser code.
Used for bounded liveness (C18): a step budget, not a wall-clock timeout, decides "hang"."""
import sys


class StepBudgetExceeded(BaseException):
    pass


class StepMeter:
    def __init__(self, budget: int, files=("corankco/utils.py", "corankco/ranking.py", "corankco/element.py")):
        self.budget = budget
        self.steps = 0
        self.files = files

    def _local(self, frame, event, arg):
        if event == "line":
            self.steps += 1
            if self.steps > self.budget:
                raise StepBudgetExceeded(f"more than {self.budget} line events")
        return self._local

    def _global(self, frame, event, arg):
        fn = frame.f_code.co_filename
        for f in self.files:
            if fn.endswith(f):
                return self._local
        return None

    def __enter__(self):
        self._old = sys.gettrace()
        sys.settrace(self._global)
        return self

    def __exit__(self, *exc):
        sys.settrace(self._old)
        return False
