"""Solver peer seam (S4): the library calls `pulp.PULP_CBC_CMD(msg=False)`; the attribute is looked up on the pulp
module at call time, so a factory installed there can hand out a solver whose k-th invocation of the run fails.
Default (no fault armed): pure delegation to the real CBC binary. When the stand-in `cplex` package is the one
importable (environment "present"), the same factory also owns its FAULT_HOOK: solves of both peers are counted
together and the k-th one fails, as CplexSolverError (mode "raise") or as a solve that ends without any solution
(mode "notsolved")."""
import pulp
from pulp.apis import PULP_CBC_CMD as REAL_CBC


class FaultySolverFactory:
    def __init__(self, fail_at=None, mode="raise", on_fire=None):
        self.real = REAL_CBC
        self.fail_at = fail_at
        self.mode = mode
        self.on_fire = on_fire
        self.calls = 0
        self.fired = 0
        self.armed = True

    def __call__(self, *args, **kwargs):
        solver = self.real(*args, **kwargs)
        factory = self
        orig = solver.actualSolve

        def actual_solve(lp, *a, **k):
            factory.calls += 1
            if factory.armed and factory.fail_at is not None and factory.calls - 1 == factory.fail_at:
                factory.fired += 1
                if factory.on_fire:
                    factory.on_fire("solver_" + factory.mode)
                if factory.mode == "raise":
                    raise pulp.PulpSolverError("simulated: cbc died (signal 9)")
                # "not solved": the solver returns without a solution, variables keep no value
                lp.assignStatus(pulp.LpStatusNotSolved, pulp.LpSolutionNoSolutionFound)
                return pulp.LpStatusNotSolved
            return orig(lp, *a, **k)

        solver.actualSolve = actual_solve
        return solver

    def _cplex_hook(self, prob):
        self.calls += 1
        if self.armed and self.fail_at is not None and self.calls - 1 == self.fail_at:
            self.fired += 1
            if self.on_fire:
                self.on_fire("cplex_" + self.mode)
            if self.mode == "raise":
                raise self._cplex.exceptions.CplexSolverError(
                    "simulated: CPLEX Error  1016: Community Edition. Problem size limits exceeded.")
            prob._forced_no_solution = True

    def install(self):
        self._saved = pulp.PULP_CBC_CMD
        pulp.PULP_CBC_CMD = self
        self._cplex = None
        try:
            import cplex
            if hasattr(cplex, "FAULT_HOOK") and hasattr(cplex, "STATS"):  # the stand-in, never a real CPLEX
                self._cplex = cplex
                cplex.FAULT_HOOK = self._cplex_hook
        except ImportError:
            pass

    def uninstall(self):
        pulp.PULP_CBC_CMD = self._saved
        if self._cplex is not None:
            self._cplex.FAULT_HOOK = None
