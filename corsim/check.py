"""`corsim check <ID>`: explore, triage against known findings, minimise, replay in a fresh interpreter,
write evidence, print VIOLATION / KNOWN-FINDING lines, return the exit code."""
import json
import os
import sys
import time
from typing import Dict, List, Optional

from . import HarnessError
from . import driver, runner, shrink
from .seed import digest

VERIF = driver.VERIF
KNOWN_FILE = os.path.join(VERIF, "known_findings.txt")
REPLAYS = os.path.join(VERIF, "replays")
EVIDENCE = os.path.join(VERIF, "evidence")

COMPONENTS = {
    "real": ["corankco (working tree of /repo, numba kernels compiled from the current sources)", "numpy", "numba",
             "igraph", "PuLP", "CBC binary (real subprocess, real temp files)"],
    "stub": ["cplex stand-in (corsim/peers/present)", "broken cplex install (corsim/peers/broken)",
             "SimFS in-memory filesystem", "RNG scheduler replacing random.choice/randint/shuffle",
             "FaultySolver wrapper around PULP_CBC_CMD", "Spy wrappers around nested algorithms"],
}


# ---------------------------------------------------------------------------------------------- known findings

def load_known(path: str = None) -> List[dict]:
    """Lines: `known: property=<id> id=<kf> :: <what fails> || {json}` and `fixed: property=<id> <commit> <what>`.
    Never written at run time."""
    out = []
    path = path or KNOWN_FILE
    if not os.path.exists(path):
        return out
    for line in open(path, encoding="utf-8"):
        line = line.strip()
        if not line or line.startswith("#"):
            continue
        if line.startswith("known:"):
            head, _, js = line.partition("||")
            meta = json.loads(js) if js.strip() else {}
            fields = dict(tok.split("=", 1) for tok in head.split("::")[0].split()[1:] if "=" in tok)
            out.append({"status": "known", "property": fields.get("property"), "id": fields.get("id"),
                        "what": head.split("::", 1)[1].strip() if "::" in head else "", "match": meta.get("match", {}),
                        "witness": meta.get("witness")})
        elif line.startswith("fixed:"):
            toks = line.split()
            out.append({"status": "fixed", "property": toks[1].split("=", 1)[1] if len(toks) > 1 else None,
                        "line": line})
    return out


def matches(entry: dict, viol: dict) -> bool:
    m = entry.get("match", {})
    if "clause" in m and viol["clause"] != m["clause"]:
        return False
    if "clauses" in m and viol["clause"] not in m["clauses"]:
        return False
    tags = viol.get("tags", {})
    for k, v in m.get("tags", {}).items():
        if tags.get(k) != v:
            return False
    return True


# ---------------------------------------------------------------------------------------------- replay files

def write_replay(rec: dict, name: str) -> str:
    os.makedirs(REPLAYS, exist_ok=True)
    path = os.path.join(REPLAYS, name)
    with open(path, "w", encoding="utf-8") as fh:
        json.dump(rec, fh, indent=1, sort_keys=True, default=str)
        fh.write("\n")
    return path


def replay_file(path: str, repo: str = None) -> int:
    """1 = reproduced, 0 = the tree no longer violates, 2 = harness error."""
    try:
        rec = json.load(open(path, encoding="utf-8"))
        cell = driver.Cell(rec["cell"], repo)
        try:
            if rec["clause"].endswith("/hang"):
                try:
                    cell.send({"cmd": "exec", "pid": rec["property"], "case": rec["case"],
                               "run_timeout": int(driver.HANG_TIMEOUT_S)})
                    res = cell._read(driver.HANG_TIMEOUT_S + 15)["res"]
                except HarnessError as exc:
                    print(f"REPRODUCED property={rec['property']} clause={rec['clause']} (the run stalls or kills its "
                          f"interpreter): {str(exc)[-300:]}")
                    return 1
            else:
                res = cell.exec_case(rec["property"], rec["case"])
        finally:
            cell.close()
    except HarnessError as exc:
        print(f"HARNESS-ERROR: {exc}")
        return 2
    hit = [v for v in res["violations"] if v["clause"] == rec["clause"]]
    if hit:
        print(f"REPRODUCED property={rec['property']} clause={rec['clause']} digest={res['digest']}"
              f" (recorded digest {rec.get('digest')})")
        print(json.dumps({"observed": hit[0]["observed"], "expected": hit[0]["expected"]}, default=str)[:1500])
        return 1
    others = sorted({v["clause"] for v in res["violations"]})
    print(f"NOT-REPRODUCED property={rec['property']} clause={rec['clause']}" +
          (f" (other clauses fail: {others})" if others else ""))
    return 0


# ---------------------------------------------------------------------------------------------- the check

def run_check(pid: str, tier: str, seed: int, budget_s: Optional[float] = None, runs: Optional[int] = None,
              minimise_s: Optional[float] = None, repo: str = None, write_evidence: bool = True,
              max_reports: int = 3) -> int:
    mod = runner.prop_module(pid)
    t0 = time.monotonic()
    known = [k for k in load_known() if k["property"] == pid and k["status"] == "known"]
    out = driver.explore_property(pid, tier, seed, budget_s=budget_s, runs=runs, repo=repo)
    if out["errors"]:
        for e in out["errors"][:3]:
            print("HARNESS-ERROR:", e[:3000])
        return 2
    aggs = out["aggs"]
    total_runs = sum(a["runs"] for a in aggs.values())
    if total_runs == 0:
        print("HARNESS-ERROR: no run was executed")
        return 2

    # --- triage exploration hits -------------------------------------------------------------------
    unknown: List[dict] = []
    known_hits: Dict[str, int] = {}
    for msg in sorted(out["violations"], key=lambda m: m["run_index"]):
        for v in msg["violations"]:
            ent = next((k for k in known if matches(k, v)), None)
            if ent:
                known_hits[ent["id"]] = known_hits.get(ent["id"], 0) + 1
            else:
                unknown.append({"msg": msg, "viol": v})

    # --- known findings: replay the committed witnesses ---------------------------------------------
    for ent in known:
        status = "no witness"
        if ent.get("witness"):
            wpath = os.path.join(VERIF, ent["witness"])
            try:
                rec = json.load(open(wpath, encoding="utf-8"))
                cell = driver.Cell(rec["cell"], repo)
                try:
                    res = cell.exec_case(pid, rec["case"])
                finally:
                    cell.close()
                still = any(matches(ent, v) for v in res["violations"])
                status = "still fails" if still else "no longer fails"
                # anything else the witness trips is an ordinary violation
                for v in res["violations"]:
                    if not any(matches(k, v) for k in known):
                        unknown.append({"msg": {"run_index": -1, "case": rec["case"], "cell": rec["cell"],
                                                "digest": res["digest"]}, "viol": v})
            except (OSError, ValueError, HarnessError) as exc:
                print(f"HARNESS-ERROR: known-finding witness {ent['witness']}: {exc}")
                return 2
        if status == "still fails" or known_hits.get(ent["id"]):
            print(f"KNOWN-FINDING: property={pid} id={ent['id']} {ent['what']} "
                  f"[witness {status}; {known_hits.get(ent['id'], 0)} exploration hits suppressed]")
        else:
            print(f"note: known finding {ent['id']} of {pid} did not reproduce in this run ({status})")

    # --- report unknown violations: one per clause, minimised ---------------------------------------
    reports = []
    seen_clauses = set()
    min_budget = minimise_s if minimise_s is not None else {"quick": 60.0, "thorough": 300.0}[tier]
    for item in unknown:
        clause = item["viol"]["clause"]
        if clause in seen_clauses or len(reports) >= max_reports:
            continue
        seen_clauses.add(clause)
        reports.append(report_violation(pid, tier, seed, item, min_budget / max(1, min(max_reports, len(unknown))),
                                        repo))

    wall = time.monotonic() - t0
    if write_evidence:
        write_evidence_file(pid, tier, seed, mod, out, known_hits, unknown, reports, wall)

    for r in reports:
        print(f"VIOLATION property={pid} replay={r['path']}")
        print(f"  clause={r['clause']} seed={seed} run={r['run_index']} cell={r['cell']} "
              f"minimised_steps={r['min_steps']} fresh_replay={r['fresh']}")
        print("  observed:", json.dumps(r["observed"], default=str)[:600])
        print("  expected:", json.dumps(r["expected"], default=str)[:600])
    nclauses = len({u["viol"]["clause"] for u in unknown})
    print(f"{pid} {tier} seed={seed}: runs={total_runs} violating_runs="
          f"{sum(a['violating_runs'] for a in aggs.values())} unknown_violations(reported to driver)={len(unknown)} "
          f"clauses={nclauses} known_hits={sum(known_hits.values())} wall={wall:.1f}s")
    return 1 if unknown else 0


def report_violation(pid, tier, seed, item, budget_s, repo) -> dict:
    msg, viol = item["msg"], item["viol"]
    case = viol.pop("case_override", None) or msg["case"]
    cell_spec = msg["cell"]
    clause = viol["clause"]
    min_steps, hit_budget, fresh, dg = 0, False, "not-run", msg.get("digest")
    if clause.endswith("/hang"):
        rec = {"property": pid, "clause": clause, "seed": seed, "tier": tier, "run_index": msg["run_index"],
               "cell": cell_spec, "case": case, "violation": viol, "digest": None, "minimised_steps": 0,
               "minimiser_hit_budget": False, "fresh_interpreter_replay": "located by the one-run-per-interpreter pass",
               "replay_cmd": "cd /verif && /venv/bin/python -m corsim replay <this file>"}
        path = write_replay(rec, f"{pid}-hang-{seed}-{msg['run_index']}.json")
        return {"path": path, "clause": clause, "run_index": msg["run_index"], "cell": cell_spec, "min_steps": 0,
                "fresh": "located in a fresh interpreter", "observed": viol.get("observed"),
                "expected": viol.get("expected")}
    try:
        cell = driver.Cell(cell_spec, repo)
        try:
            def still_fails(cand):
                res = cell.exec_case(pid, cand, tolerant=True)
                return any(v["clause"] == clause for v in res["violations"])
            if not still_fails(case):  # the explicit (narrowed) case must fail by itself; else keep the whole run
                case = msg["case"]
            extra = getattr(runner.prop_module(pid), "shrink_extra", None)
            case, min_steps, hit_budget = shrink.minimise(case, still_fails, budget_s, extra)
        finally:
            cell.close()
        # final replay in a fresh interpreter with the recorded hash seed and environment
        cell2 = driver.Cell(cell_spec, repo)
        try:
            res = cell2.exec_case(pid, case)
        finally:
            cell2.close()
        hits = [v for v in res["violations"] if v["clause"] == clause]
        fresh = "reproduced" if hits else "NOT-reproduced"
        dg = res["digest"]
        if hits:
            viol = dict(hits[0])
            viol.pop("case_override", None)
    except HarnessError as exc:
        fresh = f"harness-error: {str(exc)[:200]}"
    rec = {"property": pid, "clause": clause, "seed": seed, "tier": tier, "run_index": msg["run_index"],
           "cell": cell_spec, "case": case, "violation": viol, "digest": dg, "minimised_steps": min_steps,
           "minimiser_hit_budget": hit_budget, "fresh_interpreter_replay": fresh,
           "replay_cmd": "cd /verif && /venv/bin/python -m corsim replay <this file>"}
    name = f"{pid}-{clause.split('/', 1)[-1]}-{seed}-{msg['run_index']}.json".replace("/", "_")
    path = write_replay(rec, name)
    return {"path": path, "clause": clause, "run_index": msg["run_index"], "cell": cell_spec, "min_steps": min_steps,
            "fresh": fresh, "observed": viol.get("observed"), "expected": viol.get("expected")}


def write_evidence_file(pid, tier, seed, mod, out, known_hits, unknown, reports, wall):
    aggs = out["aggs"]
    total_runs = sum(a["runs"] for a in aggs.values())
    nontrivial = set()
    states, schedules = set(), set()
    probes: Dict[str, int] = {}
    faults: Dict[str, int] = {}
    steps = 0
    samples = []
    for c in sorted(aggs):
        a = aggs[c]
        nontrivial.update(a["nontrivial"])
        states.update(a["states"])
        schedules.update(a["schedules"])
        steps += a["steps"]
        for k, v in a["probes"].items():
            probes[k] = max(probes.get(k, 0), v) if k.startswith("max_") else probes.get(k, 0) + v
        for k, v in a["faults"].items():
            faults[k] = faults.get(k, 0) + v
        if a["samples"] and len(samples) < 4:
            samples.append(a["samples"][0])
    cells_used = [{"hashseed": c["hashseed"], "env": c["env"], "runs": aggs[c["index"]]["runs"]}
                  for c in out["cells"] if c["index"] in aggs]
    expected_probes = getattr(mod, "EXPECTED_PROBES", [])
    stuck = [p for p in expected_probes if probes.get(p, 0) == 0]
    ev = {
        "property_id": pid, "tier": tier, "seed": seed, "level": "exploration",
        "coverage": {
            "evaluations": total_runs,
            "distinct_nontrivial": len(nontrivial),
            "rule": mod.RULE,
            "samples": samples,
            "exhaustive": False,
            "runs_planned": out["nruns_planned"],
            "stopped_early_cells": sum(1 for a in aggs.values() if a["stopped_early"]),
            "runs_per_hour": round(total_runs / max(wall, 1e-9) * 3600),
            "seeds_per_hour": round(total_runs / max(wall, 1e-9) * 3600),
            "simulated_steps": steps,
            "simulated_time": "none - no listed property reads a clock; progress is counted in steps "
                              "(operations and seam calls)",
            "faults_fired": faults,
            "schedules_distinct": len(schedules),
            "states_distinct": len(states),
            "states_measure": getattr(mod, "STATES_MEASURE", "distinct result digests"),
            "probes": probes,
            "probes_stuck_at_zero": stuck,
            "cells": cells_used,
            "components": COMPONENTS,
            "known_finding_hits": known_hits,
            "unknown_violations": len(unknown),
            "reports": [{"clause": r["clause"], "replay": r["path"], "fresh_replay": r["fresh"]} for r in reports],
        },
        "assumptions": list(getattr(mod, "ASSUMPTIONS", [])) + [
            "a clean batch is evidence, not proof: datasets, schemes, schedules and fault placements are samples"],
        "wall_s": round(wall, 2),
        "violations": len(unknown),
    }
    os.makedirs(EVIDENCE, exist_ok=True)
    tmp = os.path.join(EVIDENCE, f".{pid}.json.tmp")
    with open(tmp, "w", encoding="utf-8") as fh:
        json.dump(ev, fh, indent=1, sort_keys=True, default=str)
        fh.write("\n")
    os.replace(tmp, os.path.join(EVIDENCE, f"{pid}.json"))
    if stuck:
        print(f"warning: probes stuck at zero for {pid}: {stuck}")
