"""Cell process: one fresh interpreter per (PYTHONHASHSEED, cplex environment).

Protocol: JSON lines on a private duplicate of stdout (the library and CBC may print to fd 1, which is
redirected to /dev/null). Wall clock is read only between runs, for budgets; never inside a run.
"""
import faulthandler
import json
import os
import sys
import time
import traceback


def main() -> int:
    proto = os.fdopen(os.dup(1), "w", buffering=1)
    devnull = os.open(os.devnull, os.O_WRONLY)
    os.dup2(devnull, 1)
    sys.stdout = open(os.devnull, "w")
    faulthandler.enable()

    def send(obj):
        proto.write(json.dumps(obj, separators=(",", ":"), default=str) + "\n")
        proto.flush()

    try:
        cell = json.loads(os.environ["CORSIM_CELL"])
        if str(cell["hashseed"]) != os.environ.get("PYTHONHASHSEED"):
            raise RuntimeError("PYTHONHASHSEED does not match the cell")
        from . import HarnessError, sched, lib, runner, peers
        lib.assert_repo_tree()
        peers.check_env(cell["env"])
        sched.install()
        sched.guard_global_random()
        send({"t": "ready", "cell": cell})
    except BaseException as exc:
        send({"t": "fatal", "error": repr(exc), "tb": traceback.format_exc()})
        return 2

    for line in sys.stdin:
        line = line.strip()
        if not line:
            continue
        cmd = json.loads(line)
        try:
            if cmd["cmd"] == "quit":
                break
            if cmd["cmd"] == "exec":
                faulthandler.dump_traceback_later(cmd.get("run_timeout", 300), exit=True)
                try:
                    res = runner.execute(cmd["pid"], cmd["case"], cell)
                except Exception as exc:
                    if not cmd.get("tolerant"):
                        raise
                    res = {"harness_error": repr(exc), "violations": [], "digest": None}
                faulthandler.cancel_dump_traceback_later()
                send({"t": "result", "res": res})
            elif cmd["cmd"] == "explore":
                explore(cmd, cell, send)
            elif cmd["cmd"] == "gen":
                send({"t": "case", "case": runner.generate(cmd["pid"], cmd["seed"], cmd["tier"], cmd["index"], cell)})
            elif cmd["cmd"] == "stubcheck":
                stubcheck(cmd, cell, send)
            else:
                send({"t": "fatal", "error": f"unknown command {cmd['cmd']}"})
                return 2
        except HarnessError as exc:
            send({"t": "fatal", "error": "HarnessError: " + str(exc), "tb": traceback.format_exc()})
            return 2
        except BaseException as exc:
            send({"t": "fatal", "error": repr(exc), "tb": traceback.format_exc()})
            return 2
    return 0


def explore(cmd, cell, send):
    from . import runner
    pid, seed, tier = cmd["pid"], cmd["seed"], cmd["tier"]
    mod = runner.prop_module(pid)
    deadline = time.monotonic() + cmd.get("wall_s", 1e9)
    agg = {"runs": 0, "nontrivial": set(), "probes": {}, "faults": {}, "steps": 0, "states": set(),
           "schedules": set(), "samples": [], "digests": {}, "violating_runs": 0, "stopped_early": False}
    want_digests = cmd.get("want_digests", False)
    nsamples = cmd.get("samples", 1)
    max_msgs = cmd.get("max_violation_msgs", 20)
    max_violating = cmd.get("max_violating_runs", 300)
    sent = 0
    for n_done, idx in enumerate(cmd["runs"]):
        if time.monotonic() > deadline:
            agg["stopped_early"] = True
            break
        if agg["violating_runs"] >= max_violating:
            agg["stopped_early"] = True
            agg["stop_reason"] = "too many violating runs"
            break
        if n_done % 16 == 0:
            send({"t": "progress", "done": n_done})
        faulthandler.dump_traceback_later(cmd.get("run_timeout", 45), exit=True)
        case = runner.generate(pid, seed, tier, idx, cell)
        res = runner.execute(pid, case, cell)
        faulthandler.cancel_dump_traceback_later()
        agg["runs"] += 1
        for k, v in res["probes"].items():
            agg["probes"][k] = max(agg["probes"].get(k, 0), v) if k.startswith("max_") else agg["probes"].get(k, 0) + v
        for k, v in res["faults"].items():
            agg["faults"][k] = agg["faults"].get(k, 0) + v
        agg["steps"] += res["steps"]
        agg["states"].update(res["states"])
        agg["schedules"].update(res["schedules"])
        if mod.nontrivial(res["probes"]):
            agg["nontrivial"].add(res["case_digest"])
        if want_digests:
            agg["digests"][str(idx)] = res["digest"]
        if len(agg["samples"]) < nsamples:
            agg["samples"].append({"run_index": idx, "cell": cell, "case": case, "probes": res["probes"],
                                   "faults": res["faults"], "digest": res["digest"]})
        if res["violations"]:
            agg["violating_runs"] += 1
            agg["violation_count"] = agg.get("violation_count", 0) + len(res["violations"])
            if sent < max_msgs:
                sent += 1
                send({"t": "violation", "run_index": idx, "case": case, "violations": res["violations"][:6],
                      "digest": res["digest"]})
    for k in ("nontrivial", "states", "schedules"):
        agg[k] = sorted(agg[k])
    send({"t": "done", "agg": agg})


def stubcheck(cmd, cell, send):
    """Cross-check the stand-in's branch and bound against real CBC on the models the library built."""
    import cplex
    import pulp
    from . import runner
    models = mism = 0
    worst = 0.0
    for idx in range(cmd["n"]):
        cplex.reset_stats()
        case = runner.generate("C05", 424242, "quick", idx, cell)
        runner.execute("C05", case, cell)
        for m in cplex.STATS["models"]:
            if m["opt"] is None:
                continue
            prob = pulp.LpProblem("x", pulp.LpMinimize if m["sense"] == 1 else pulp.LpMaximize)
            vs = [pulp.LpVariable("v%d" % i, 0, 1, cat="Binary") for i in range(len(m["names"]))]
            prob += pulp.lpSum(c * v for c, v in zip(m["obj"], vs))
            for idxs, coefs, sense, rhs in m["rows"]:
                e = pulp.lpSum(c * vs[i] for i, c in zip(idxs, coefs))
                prob += (e == rhs) if sense == "E" else (e <= rhs) if sense == "L" else (e >= rhs)
            prob.solve(pulp.PULP_CBC_CMD(msg=False))
            val = pulp.value(prob.objective) or 0.0
            models += 1
            worst = max(worst, abs(val - m["opt"]))
            if abs(val - m["opt"]) > 1e-6:
                mism += 1
    send({"t": "stubcheck", "models": models, "mismatches": mism, "worst_abs_diff": worst})


if __name__ == "__main__":
    sys.exit(main())
