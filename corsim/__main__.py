"""CLI: python -m corsim check <ID> [--tier quick|thorough] | replay <file> | selftest determinism|sensitivity|stub|models|simfs"""
import argparse
import os
import sys


def main(argv=None) -> int:
    ap = argparse.ArgumentParser(prog="corsim")
    sub = ap.add_subparsers(dest="cmd", required=True)
    c = sub.add_parser("check")
    c.add_argument("pid")
    c.add_argument("--tier", default=os.environ.get("VERIF_TIER", "quick"), choices=["quick", "thorough"])
    c.add_argument("--seed", type=int, default=None)
    c.add_argument("--runs", type=int, default=None)
    c.add_argument("--budget", type=float, default=None)
    c.add_argument("--minimise-s", type=float, default=None)
    c.add_argument("--repo", default=None)
    c.add_argument("--no-evidence", action="store_true")
    r = sub.add_parser("replay")
    r.add_argument("path")
    r.add_argument("--repo", default=None)
    s = sub.add_parser("selftest")
    s.add_argument("what", choices=["determinism", "sensitivity", "stub", "models", "simfs"])
    s.add_argument("--props", default=None)
    s.add_argument("--runs", type=int, default=None)
    s.add_argument("--only", default=None)
    args = ap.parse_args(argv)

    # a fixed hash seed for the driver itself (cells get their own): the driver's behaviour does not depend on it,
    # but this keeps any accidental set-iteration in reporting code stable
    if os.environ.get("PYTHONHASHSEED") is None and args.cmd != "selftest":
        os.environ["PYTHONHASHSEED"] = "0"
        os.execv(sys.executable, [sys.executable, "-m", "corsim"] + (argv or sys.argv[1:]))

    from . import HarnessError
    try:
        if args.cmd == "check":
            from .check import run_check
            seed = args.seed if args.seed is not None else int(os.environ.get("VERIF_SEED", "0"))
            budget = args.budget
            if budget is None and os.environ.get("VERIF_BUDGET_S"):
                budget = float(os.environ["VERIF_BUDGET_S"])
            return run_check(args.pid.upper(), args.tier, seed, budget_s=budget, runs=args.runs,
                             minimise_s=args.minimise_s, repo=args.repo, write_evidence=not args.no_evidence)
        if args.cmd == "replay":
            from .check import replay_file
            return replay_file(args.path, args.repo)
        if args.cmd == "selftest":
            from . import selftest
            return selftest.main(args)
    except HarnessError as exc:
        print("HARNESS-ERROR:", exc)
        return 2
    return 2


if __name__ == "__main__":
    sys.exit(main())
