"""Simulated filesystem seam for corankco.utils / corankco.ranking (S5 in DESIGN.md) with fault injection.

`open` and `os` are shadowed in the module globals of corankco.utils and corankco.ranking (no source hook). Files
live in a dict path -> durable text. A write handle buffers accepted text; close makes it durable. Faults:

  crash_at(k)   only the first k characters ever become durable; the writer is interrupted by SimCrash
                (a BaseException, like a kill) at the write call that crosses k
  enospc_at(k)  write raises OSError(ENOSPC) once k characters have been accepted (caller sees the failure)
  lost_write(i) the i-th write call is silently dropped from its j-th character on (lost tail)
  flip(i, c)    after close, stored character i is replaced by c
  dup_line(i) / drop_line(i)   after close, line i is duplicated / lost
  eio_on_read   read() raises OSError(EIO)
"""
import errno
import io
import posixpath
from typing import Dict, List, Optional


class SimCrash(BaseException):
    """The simulated process died inside a write."""


class _Writer:
    def __init__(self, fs: "SimFS", path: str):
        self.fs, self.path = fs, path
        self.accepted = ""
        self.calls = 0
        self.closed = False
        self.crashed = False
        fs.files[path] = ""  # truncation is immediately visible

    def write(self, s: str) -> int:
        if self.closed:
            raise ValueError("I/O operation on closed file.")
        fs = self.fs
        f = fs.fault if fs.fault and fs.fault.get("path_ok", True) else None
        self.calls += 1
        fs.write_calls += 1
        if f and f["kind"] == "crash_at":
            room = f["k"] - len(self.accepted)
            if len(s) >= room and not fs.fired.get("crash_at"):
                self.accepted += s[:max(room, 0)]
                fs.files[self.path] = self.accepted
                fs.fire("crash_at")
                self.crashed = True
                raise SimCrash(f"crash after {len(self.accepted)} characters")
        if f and f["kind"] == "enospc_at":
            room = f["k"] - len(self.accepted)
            if len(s) > room:
                self.accepted += s[:max(room, 0)]
                fs.fire("enospc_at")
                raise OSError(errno.ENOSPC, "No space left on device")
        if f and f["kind"] == "lost_write" and self.calls - 1 == f["i"] and not fs.fired.get("lost_write"):
            keep = s[:f.get("j", 0)]
            self.accepted += keep
            fs.fire("lost_write")
            return len(s)  # the caller is told everything went fine
        self.accepted += s
        return len(s)

    def close(self):
        if self.closed:
            return
        self.closed = True
        self.fs.files[self.path] = self.accepted
        if not self.crashed:
            self.fs.after_close(self.path)

    def flush(self):
        pass

    def __enter__(self):
        return self

    def __exit__(self, *exc):
        self.close()
        return False


class _Reader(io.StringIO):
    def __init__(self, fs: "SimFS", text: str):
        super().__init__(text)
        self._fs = fs

    def read(self, *a):
        f = self._fs.fault
        if f and f["kind"] == "eio_on_read":
            self._fs.fire("eio_on_read")
            raise OSError(errno.EIO, "Input/output error")
        return super().read(*a)


class _Path:
    sep = "/"
    pardir = ".."

    def __init__(self, fs):
        self._fs = fs

    def isdir(self, p):
        # as on a real POSIX system, the empty path names nothing (stat("") is ENOENT), it is not the working directory
        return p != "" and self._fs.norm(p) in self._fs.dirs

    def isfile(self, p):
        # "file/" is not a file: a trailing separator demands a directory
        return p != "" and not p.endswith("/") and self._fs.norm(p) in self._fs.files

    def exists(self, p):
        return self.isdir(p) or self.isfile(p)

    def abspath(self, p):
        return self._fs.norm(p)

    def join(self, a, *b):
        return posixpath.join(a, *b)

    def basename(self, p):
        return posixpath.basename(p)

    def dirname(self, p):
        return posixpath.dirname(p)


class _OS:
    pardir = ".."
    sep = "/"

    def __init__(self, fs):
        self._fs = fs
        self.path = _Path(fs)

    def listdir(self, p):
        d = self._fs.norm(p)
        if p != "" and (d in self._fs.files or self._fs.through_a_file(d)):
            raise NotADirectoryError(errno.ENOTDIR, "Not a directory", p)
        if p == "" or d not in self._fs.dirs:
            raise FileNotFoundError(errno.ENOENT, "No such file or directory", p)
        pre = d.rstrip("/") + "/"
        return [q[len(pre):] for q in list(self._fs.files) + list(self._fs.dirs)
                if q.startswith(pre) and "/" not in q[len(pre):] and q != d]


class SimFS:
    CWD = "/sim/cwd"

    def __init__(self, fault: Optional[dict] = None, on_fire=None):
        self.files: Dict[str, str] = {}
        self.dirs = {"/", "/sim", self.CWD, "/sim/data"}
        self.fault = fault
        self.fired: Dict[str, int] = {}
        self.on_fire = on_fire
        self.write_calls = 0
        self.os = _OS(self)

    def norm(self, p: str) -> str:
        if not isinstance(p, str):
            raise TypeError("path must be str")
        return posixpath.normpath(posixpath.join(self.CWD, p))

    def fire(self, kind: str):
        self.fired[kind] = self.fired.get(kind, 0) + 1
        if self.on_fire:
            self.on_fire(kind)

    def through_a_file(self, p: str) -> bool:
        """True when a proper ancestor of the normalised path is a regular file (ENOTDIR on a real system)."""
        d = posixpath.dirname(p)
        while d not in ("/", ""):
            if d in self.files:
                return True
            d = posixpath.dirname(d)
        return False

    def open(self, path, mode="r", encoding=None, **kw):
        p = self.norm(path)
        if path == "":
            raise FileNotFoundError(errno.ENOENT, "No such file or directory", path)
        if self.through_a_file(p):
            raise NotADirectoryError(errno.ENOTDIR, "Not a directory", path)
        if path.endswith("/") and p in self.files:
            if "w" in mode:
                raise IsADirectoryError(errno.EISDIR, "Is a directory", path)
            raise NotADirectoryError(errno.ENOTDIR, "Not a directory", path)
        if "w" in mode:
            if posixpath.dirname(p) not in self.dirs:
                raise FileNotFoundError(errno.ENOENT, "No such file or directory", path)
            if p in self.dirs:
                raise IsADirectoryError(errno.EISDIR, "Is a directory", path)
            return _Writer(self, p)
        if p in self.dirs:
            raise IsADirectoryError(errno.EISDIR, "Is a directory", path)
        if p not in self.files:
            raise FileNotFoundError(errno.ENOENT, "No such file or directory", path)
        return _Reader(self, self.files[p])

    def after_close(self, p: str):
        """Bit rot / block-level loss applied to the stored text once the writer has closed."""
        f = self.fault
        if not f:
            return
        txt = self.files[p]
        if f["kind"] == "flip" and txt:
            i = f["i"] % len(txt)
            self.files[p] = txt[:i] + f["c"] + txt[i + 1:]
            self.fire("flip")
        elif f["kind"] in ("dup_line", "drop_line"):
            lines = txt.split("\n")
            body = lines[:-1] if txt.endswith("\n") else lines
            if body:
                i = f["i"] % len(body)
                if f["kind"] == "dup_line":
                    body = body[:i + 1] + [body[i]] + body[i + 1:]
                else:
                    body = body[:i] + body[i + 1:]
                self.files[p] = "\n".join(body) + ("\n" if txt.endswith("\n") else "")
                self.fire(f["kind"])

    # -- seam management ---------------------------------------------------------------------------------
    def install(self):
        import corankco.utils as U
        import corankco.ranking as R
        self._saved = (U.os, )
        U.os = self.os
        U.open = self.open
        R.open = self.open

    def uninstall(self):
        import corankco.utils as U
        import corankco.ranking as R
        U.os = self._saved[0]
        for m in (U, R):
            if "open" in m.__dict__:
                del m.__dict__["open"]
