"""Seed derivation: every stream is derived by label, never by sharing a generator."""
import hashlib
import json
import random


def derive(*parts) -> int:
    """64-bit integer derived from the labels; stable across processes and hash seeds."""
    txt = "\x1f".join(str(p) for p in parts).encode()
    return int.from_bytes(hashlib.sha256(txt).digest()[:8], "big")


def rng(*parts) -> random.Random:
    return random.Random(derive(*parts))


def digest(obj) -> str:
    """Canonical digest of a JSON-able object."""
    return hashlib.sha256(json.dumps(obj, sort_keys=True, separators=(",", ":"), default=str).encode()).hexdigest()[:16]
