"""C16 - Ranking/Dataset views stay consistent through every construction and mutation.

Simulator dimension: *histories* of mutators on one shared Dataset object, including mutators that fail half-way
(a refused removal is a crash point inside the history: the object the caller still holds must be either the old
or the new state, never a mixture - clause C16/after-failed-mutator, kept separate so that it can be triaged
separately). Constructors include files on the simulated filesystem and generators under the RNG seam.
Oracle: reference dataset model (lists of frozensets), recomputed from scratch after every operation.
"""
import numpy as np

from .. import gen, model, sched
from ..lib import (build_dataset, build_bucket, call, canon_ranking, canon_rankings, exc_label, key_of, jsonable_ranking, Dataset,
                   Ranking, Element, EmptyDatasetException, PickAPerm, BordaCount, build_scheme)
from ..simfs import SimFS
from ..seed import digest

ID = "C16"
ENVS = ["absent"]
RUNS = {"quick": 96000, "thorough": 960000}
RULE = ("case = (constructor route, dataset with insertion orders, history of 1-12 mutators / derivations incl. "
        "removals of foreign or of all elements); distinct = distinct case digest; non-trivial = at least one mutator "
        "changed the dataset or one derived object was checked")
LEVEL_TEXT = ("seeded search over construction routes x histories of mutators and derivations; after every operation "
              "every view of the dataset and of every reachable ranking is recomputed from the buckets by a reference "
              "model and compared; failed mutators are crash points after which the same invariants must hold")
ASSUMPTIONS = ["views are judged against the object's own buckets (what the rankings contain), so the oracle never "
               "presumes whether an emptied ranking is kept or dropped",
               "C16/after-failed-mutator reads 'after any sequence' as including sequences with a refused removal"]
EXPECTED_PROBES = ["mutator_changed", "mutator_failed", "unified_checked", "projection_checked", "views_checked",
                   "live_rechecked", "child_mutated",
                   "consensus_ranking_checked", "from_file_ctor", "generator_ctor", "inputs_clobbered"]
STATES_MEASURE = "distinct (op kind, outcome, dataset shape) triples"


def gen_case(st, tier, env):
    w, k = st.workload, st.knobs
    route = k.choice(["spec", "spec", "spec", "from_file", "markov", "uniform"])
    case = {"route": route}
    if route in ("spec", "from_file"):
        case["dataset"] = gen.gen_dataset(w, n_max=7, m_max=6, file_safe=(route == "from_file"),
                                          allow_empty=True if route == "spec" else False)
    else:
        case["gen"] = {"n": k.randint(1, 7), "m": k.randint(1, 5), "steps": k.choice([0, 3, 20, 60]),
                       "complete": k.random() < 0.5, "sched": gen.gen_sched(st.schedule)}
    ops = []
    for _ in range(k.choice([1, 2, 3, 5, 8, 12])):
        r = w.random()
        if r < 0.3:
            mode = w.choice(["subset", "subset", "subset", "foreign", "all", "empty"])
            ops.append({"op": "remove_elements", "mode": mode, "pick": [w.randrange(64) for _ in range(w.randint(1, 3))],
                        "as_elements": w.random() < 0.5})
        elif r < 0.45:
            ops.append({"op": "remove_rate", "rate": w.choice([0, 0.2, 0.25, 1 / 3, 0.5, 0.5, 0.75, 1, 1.5])})
        elif r < 0.55:
            ops.append({"op": "remove_empty_rankings"})
        elif r < 0.65:
            ops.append({"op": "unified_rankings"})
        elif r < 0.75:
            ops.append({"op": "unified_dataset"})
        elif r < 0.85:
            ops.append({"op": "sub_problem", "by": w.choice(["elements", "ids"]),
                        "pick": [w.randrange(64) for _ in range(w.randint(1, 4))], "foreign": w.random() < 0.3})
        elif r < 0.9:
            ops.append({"op": "consensus", "alg": w.choice(["PickAPerm", "BordaCount"])})
        elif r < 0.94:
            ops.append({"op": "parse", "which": w.randrange(64), "notation": w.choice(["brace", "bracket"])})
        elif r < 0.945:
            ops.append({"op": "consensus_wrap", "how": w.choice(["rankings", "raw", "unified"]), "drop": w.randrange(64)})
        elif r < 0.96:
            ops.append({"op": "mutate_child", "which": w.randrange(64), "pick": [w.randrange(64)],
                        "how": w.choice(["remove_elements", "remove_empty_rankings", "remove_rate"]),
                        "rate": w.choice([0.3, 0.6])})
        elif r < 0.968:
            # the caller edits, after a construction, the very sets / lists it handed to the Ranking constructor
            ops.append({"op": "clobber_inputs", "how": w.choice(["clear", "add", "refill", "append_bucket"]),
                        "as_elements": w.random() < 0.5})
        elif r < 0.975:
            # an illegal construction: the same name (after the library's own normalisation) in two buckets, adjacent
            # or not; the API must refuse it or hand out a ranking whose buckets are disjoint
            ops.append({"op": "overlap", "via": w.choice(["Ranking", "from_string", "from_raw_list", "zero_padded"]),
                        "nb": w.randint(2, 5), "at": [w.randrange(64), w.randrange(64)]})
        else:
            ops.append({"op": "views"})
    if w.random() < 0.04:
        ops.insert(w.randrange(len(ops) + 1),
                   {"op": "clobber_inputs", "how": w.choice(["clear", "add", "refill", "append_bucket"]),
                    "as_elements": w.random() < 0.5})
    case["ops"] = ops
    return case


def nontrivial(probes):
    return probes.get("mutator_changed", 0) + probes.get("derived_checked", 0) > 0


# ---------------------------------------------------------------------------------------------- invariants

def ranking_views(r, what):
    """positions / domain / nb_elements / len / iteration agree with the buckets."""
    bad = []
    cr = canon_ranking(r)
    want_pos = model.positions_of(cr)
    ok, pos = call(lambda: {key_of(e): p for e, p in r.positions.items()})
    if not ok or pos != want_pos:
        bad.append((what + ".positions", repr(pos)[:200], want_pos))
    ok, dom = call(lambda: {key_of(e) for e in r.domain})
    if not ok or dom != set(want_pos):
        bad.append((what + ".domain", repr(dom)[:200], sorted(want_pos, key=model.sort_key)))
    ok, nb = call(lambda: r.nb_elements)
    if not ok or nb != len(want_pos):
        bad.append((what + ".nb_elements", repr(nb), len(want_pos)))
    ok, ln = call(lambda: len(r))
    if not ok or ln != len(cr):
        bad.append((what + ".len", repr(ln), len(cr)))
    ok, it = call(lambda: [frozenset(key_of(e) for e in b) for b in r])
    if not ok or tuple(it) != cr:
        bad.append((what + ".iter", repr(it)[:200], jsonable_ranking(cr)))
    if sum(len(b) for b in r.buckets) != len(want_pos):
        bad.append((what + ".overlapping-buckets", jsonable_ranking(cr), "pairwise disjoint buckets"))
    for b in r.buckets:
        if len(b) == 0:
            bad.append((what + ".empty-bucket", jsonable_ranking(cr), "non-empty buckets"))
        for e in b:
            if not isinstance(e, Element):
                bad.append((what + ".member-type", repr(e), "Element"))
    return bad


def dataset_views(ds, what="dataset"):
    """Every view of the dataset agrees with its own rankings' buckets."""
    bad = []
    mr = canon_rankings(ds.rankings)
    for i, r in enumerate(ds.rankings):
        bad += ranking_views(r, f"{what}.rankings[{i}]")
    univ = model.universe(mr)
    n, m = len(univ), len(mr)
    ok, u = call(lambda: {key_of(e) for e in ds.universe})
    if not ok or u != set(univ):
        bad.append((what + ".universe", repr(sorted(u, key=model.sort_key) if ok else u)[:200], univ))
    ok, ne = call(lambda: ds.nb_elements)
    if not ok or ne != n:
        bad.append((what + ".nb_elements", repr(ne), n))
    ok, nr = call(lambda: ds.nb_rankings)
    if not ok or nr != m:
        bad.append((what + ".nb_rankings", repr(nr), m))
    e2i = {key_of(e): i for e, i in ds.mapping_elem_id.items()}
    i2e = {i: key_of(e) for i, e in ds.mapping_id_elem.items()}
    if set(e2i) != set(univ) or sorted(e2i.values()) != list(range(n)) or len(ds.mapping_elem_id) != n:
        bad.append((what + ".mapping_elem_id", repr(e2i)[:200], f"bijection universe -> 0..{n - 1}"))
    if i2e != {i: e for e, i in e2i.items()} or len(ds.mapping_id_elem) != n:
        bad.append((what + ".mapping_id_elem", repr(i2e)[:200], "exact inverse of mapping_elem_id and nothing else"))
    # homogeneous element types
    raw_names = [e for r in ds.rankings for b in r.buckets for e in b]
    want_int = all(model.int_like(key_of(e)) for e in raw_names)
    for cont, nm in ((ds.universe, "universe"), (raw_names, "rankings"), (ds.mapping_elem_id.keys(), "mapping")):
        for e in cont:
            if isinstance(e, Element) and (e.type is int) != want_int:
                bad.append((what + ".element-type", f"{nm}: {key_of(e)!r}:{e.type.__name__}",
                            "int" if want_int else "str"))
                break
    if bool(ds.is_complete) != model.is_complete(mr):
        bad.append((what + ".is_complete", bool(ds.is_complete), model.is_complete(mr)))
    if bool(ds.without_ties) != model.without_ties(mr):
        bad.append((what + ".without_ties", bool(ds.without_ties), model.without_ties(mr)))
    if set(e2i) == set(univ) and sorted(e2i.values()) == list(range(n)):
        for fn, per_rank in (("get_positions", lambda r: {e: p - 1 for e, p in model.positions_of(r).items()}),
                             ("get_bucket_ids", model.bucket_of)):
            ok, mat = call(getattr(ds, fn))
            want = np.full((n, m), -1, dtype=int)
            for j, r in enumerate(mr):
                for e, v in per_rank(r).items():
                    want[e2i[e]][j] = v
            if not ok or not isinstance(mat, np.ndarray) or mat.shape != want.shape or not (mat == want).all():
                bad.append((what + "." + fn, repr(mat.tolist() if ok and hasattr(mat, "tolist") else mat)[:300],
                            want.tolist()))
    return bad


def run_case(case, ctx):
    fs = None
    # ---- construction ------------------------------------------------------------------------------------------
    if case["route"] in ("spec", "from_file"):
        spec = case["dataset"]
        okd, ds = call(build_dataset, spec)
        if not okd:
            ctx.probe("ctor_refused_" + exc_label(ds))
            return
        want_model = model.normalise(spec["rankings"])
        if case["route"] == "from_file":
            fs = SimFS()
            fs.install()
            try:
                okw, _ = call(ds.write, "d.txt")
                okr, ds2 = call(Dataset.from_file, "d.txt")
            finally:
                fs.uninstall()
            if okw and okr:
                ds = ds2
                ctx.probe("from_file_ctor")
                want_model = None  # C18 judges the round trip; here only internal consistency
            else:
                ctx.probe("from_file_failed")
        if want_model is not None and canon_rankings(ds.rankings) != want_model:
            ctx.violate("C16/construction", model.canon(canon_rankings(ds.rankings)), model.canon(want_model),
                        {"route": case["route"]}, "Dataset()")
    else:
        g = case["gen"]
        s = sched.Sched.from_spec(g["sched"])
        sched.set_current(s)
        try:
            if case["route"] == "markov":
                okd, ds = call(Dataset.get_random_dataset_markov, g["n"], g["m"], g["steps"], g["complete"])
            else:
                okd, ds = call(Dataset.get_uniform_permutation_dataset, g["n"], g["m"])
        finally:
            sched.set_current(None)
        if not okd:
            ctx.probe("ctor_refused_" + exc_label(ds))
            return
        ctx.probe("generator_ctor")
    ctx.event("built", case["route"], model.canon(canon_rankings(ds.rankings)))

    def report(bads, clause, op, t=None):
        for what, obs, exp in bads[:3]:
            tags = {"view": what.split("[")[0].split(".")[-1] if "." in what else what, "op": op}
            tags["view"] = what.rsplit(".", 1)[-1]
            tags.update(t or {})
            ctx.violate(clause, {"view": what, "value": obs}, exp, tags, op)
            k = case["ops"].index(cur_op) + 1 if cur_op in case["ops"] else len(case["ops"])
            ctx.violations[-1]["case_override"] = dict(case, ops=case["ops"][:k])

    cur_op = None
    ctx.probe("views_checked")
    report(dataset_views(ds), "C16/views", "construction")
    live = []  # derived datasets still held by the caller: [name, object, model of its rankings]

    def recheck_live(after_op):
        """A derived dataset is an object of its own: editing its parent (or a sibling) must not touch it."""
        for name, obj, want in live:
            now = canon_rankings(obj.rankings)
            if now != want:
                report([(name + " changed by " + after_op, model.canon(now), model.canon(want))], "C16/derived-views",
                       after_op, {"live": name})
            bads = dataset_views(obj, name + " (held since)")
            if bads:
                report(bads, "C16/derived-views", after_op, {"live": name})
            ctx.probe("live_rechecked")

    # ---- history -----------------------------------------------------------------------------------------------
    for op in case["ops"]:
        cur_op = op
        before = canon_rankings(ds.rankings)
        univ = model.universe(before)
        kind = op["op"]
        outcome = "ok"
        if kind == "remove_elements":
            if not univ:
                continue
            if op["mode"] == "all":
                chosen = list(univ)
            elif op["mode"] == "empty":
                chosen = []
            else:
                chosen = sorted({univ[i % len(univ)] for i in op["pick"]}, key=model.sort_key)
            if op["mode"] == "foreign":
                chosen = chosen + ([10 ** 6 + 1] if isinstance(univ[0], int) else ["no-such-element"])
            arg = {Element(x) for x in chosen} if op["as_elements"] else set(chosen)
            okm, res = call(ds.remove_elements, arg)
            _after_mutator(ctx, ds, before, okm, res, kind + ":" + op["mode"],
                           lambda: model.remove(before, [c for c in chosen if c in set(univ)]), report)
        elif kind == "remove_rate":
            m = len(before)
            gone = [e for e in univ if sum(1 for r in before if e in model.domain(r)) / m < op["rate"]]
            okm, res = call(ds.remove_elements_rate_presence_lower_than, op["rate"])
            _after_mutator(ctx, ds, before, okm, res, kind, lambda: model.remove(before, gone), report)
        elif kind == "remove_empty_rankings":
            okm, res = call(ds.remove_empty_rankings)
            _after_mutator(ctx, ds, before, okm, res, kind, lambda: [r for r in before if len(r) > 0], report,
                           keep_empties=False)
        elif kind == "unified_rankings":
            oku, ur = call(ds.unified_rankings)
            if not oku:
                ctx.violate("C16/derived-raised", f"unified_rankings: {exc_label(ur)}", "a list of rankings", {"op": kind})
                continue
            ctx.probe("unified_checked")
            ctx.probe("derived_checked")
            want = model.unify(before)
            if canon_rankings(ur) != want:
                report([("unified_rankings", model.canon(canon_rankings(ur)), model.canon(want))], "C16/unification", kind)
            bads = []
            for i, r in enumerate(ur):
                bads += ranking_views(r, f"unified_rankings()[{i}]")
            report(bads, "C16/derived-views", kind)
            if canon_rankings(ds.rankings) != before:
                report([("dataset mutated by unified_rankings", model.canon(canon_rankings(ds.rankings)),
                         model.canon(before))], "C16/derived-views", kind)
        elif kind == "unified_dataset":
            oku, ud = call(ds.unified_dataset)
            if not oku:
                ctx.violate("C16/derived-raised", f"unified_dataset: {exc_label(ud)}", "a dataset", {"op": kind})
                continue
            ctx.probe("unified_checked")
            ctx.probe("derived_checked")
            want = model.unify(before)
            if canon_rankings(ud.rankings) != model.renorm(want):
                report([("unified_dataset", model.canon(canon_rankings(ud.rankings)), model.canon(model.renorm(want)))],
                       "C16/unification", kind)
            report(dataset_views(ud, "unified_dataset()"), "C16/derived-views", kind)
            live.append(["unified_dataset()", ud, canon_rankings(ud.rankings)])
            del live[:-3]
        elif kind == "sub_problem":
            if not univ:
                continue
            keep = sorted({univ[i % len(univ)] for i in op["pick"]}, key=model.sort_key)
            if op["by"] == "ids":
                e2i = {key_of(e): i for e, i in ds.mapping_elem_id.items()}
                if not all(e in e2i for e in keep):
                    continue  # stale maps are reported by the views clause
                oks, sub = call(ds.sub_problem_from_ids, {e2i[e] for e in keep})
            else:
                kept = {Element(e) for e in keep}
                if op.get("foreign"):
                    # a name no ranking ranks: it simply is not there
                    kept.add(Element(10 ** 6 + 3) if isinstance(univ[0], int) else Element("no-such-element"))
                oks, sub = call(ds.sub_problem_from_elements, kept)
            want = model.renorm(model.project(before, keep))
            ctx.probe("projection_checked")
            ctx.probe("derived_checked")
            if not oks:
                if isinstance(sub, EmptyDatasetException) and not want:
                    continue
                ctx.violate("C16/derived-raised", f"sub_problem_from_{op['by']}: {exc_label(sub)}: {str(sub)[:100]}",
                            model.canon(want), {"op": kind, "by": op["by"]})
                ctx.violations[-1]["case_override"] = dict(case, ops=case["ops"][:case["ops"].index(op) + 1])
                continue
            if canon_rankings(sub.rankings) != want:
                report([("sub_problem", model.canon(canon_rankings(sub.rankings)), model.canon(want))],
                       "C16/projection", kind, {"by": op["by"]})
            report(dataset_views(sub, "sub_problem()"), "C16/derived-views", kind, {"by": op["by"]})
            live.append(["sub_problem()", sub, canon_rankings(sub.rankings)])
            del live[:-3]
        elif kind == "consensus":
            sc = build_scheme(gen.preset("unifying", 1.0))
            alg = PickAPerm() if op["alg"] == "PickAPerm" else BordaCount()
            okc, cons = call(alg.compute_consensus_rankings, ds, sc, False)
            if okc:
                ctx.probe("consensus_ranking_checked")
                ctx.probe("derived_checked")
                bads = []
                for i, r in enumerate(cons.consensus_rankings):
                    bads += ranking_views(r, f"{op['alg']}.consensus_rankings[{i}]")
                report(bads, "C16/derived-views", kind, {"alg": op["alg"]})
        elif kind == "consensus_wrap":
            # a Consensus built by hand (no dataset attached) from rankings the caller already holds
            from ..lib import Consensus
            if op["how"] == "rankings":
                held = list(ds.rankings)
            elif op["how"] == "unified":
                oku, held = call(ds.unified_rankings)
                if not oku:
                    continue
            else:
                held = None
            if held is not None:
                held = [r0 for r0 in held if len(r0) > 0]
                if len(held) > 1:
                    held = held[op["drop"] % len(held):] + held[:op["drop"] % len(held)]
                okc, cons = call(Consensus, held)
            else:
                okc, cons = call(Consensus.from_raw_lists, [[set(b) for b in r0.buckets] for r0 in ds.rankings])
            if not okc:
                ctx.probe("consensus_wrap_refused")  # (an IndexError of the constructor is outside the properties)
                continue
            ctx.probe("consensus_wrapped")
            ctx.probe("derived_checked")
            bads = []
            for n_r, r0 in enumerate(cons.consensus_rankings):
                bads += ranking_views(r0, f"Consensus(...).consensus_rankings[{n_r}]")
            if held is not None:
                for n_r, r0 in enumerate(held):
                    bads += ranking_views(r0, f"ranking handed to Consensus [{n_r}]")
            report(bads, "C16/derived-views", kind, {"how": op["how"]})
            report(dataset_views(ds), "C16/views", kind)
        elif kind == "mutate_child":
            if not live:
                continue
            ent = live[op["which"] % len(live)]
            child = ent[1]
            cu = model.universe(canon_rankings(child.rankings))
            if op["how"] == "remove_elements" and len(cu) > 1:
                call(child.remove_elements, {Element(cu[op["pick"][0] % len(cu)])})
            elif op["how"] == "remove_rate":
                call(child.remove_elements_rate_presence_lower_than, op["rate"])
            else:
                call(child.remove_empty_rankings)
            ent[2] = canon_rankings(child.rankings)  # the child may change; nobody else may
            ctx.probe("child_mutated")
            report(dataset_views(child, ent[0] + " after its own mutation"), "C16/derived-views", kind)
            if canon_rankings(ds.rankings) != before:
                report([("parent changed by a mutation of its child", model.canon(canon_rankings(ds.rankings)),
                         model.canon(before))], "C16/derived-views", kind)
            report(dataset_views(ds, "parent after child mutation"), "C16/views", kind)
        elif kind == "overlap":
            nb = op["nb"]
            names = list(range(1, nb))  # nb - 1 distinct names in nb buckets: one name comes twice
            i, j = op["at"][0] % nb, op["at"][1] % nb
            if i == j:
                j = (i + 1) % nb
            i, j = min(i, j), max(i, j)
            seq = names[:j] + [names[i]] + names[j:]
            seq = seq[:nb]
            if len(set(seq)) == len(seq):
                continue
            via = op["via"]
            if via == "Ranking":
                oko, obj = call(Ranking, [{x} for x in seq])
                got = [obj] if oko else []
            elif via == "from_string":
                oko, obj = call(Ranking.from_string, "[" + ", ".join("{%d}" % x for x in seq) + "]")
                got = [obj] if oko else []
            elif via == "zero_padded":
                txt = ["{%d}" % x for x in seq]
                txt[j] = "{0%d}" % seq[j]  # "01" and "1" are the same name once converted to int
                oko, obj = call(Ranking.from_string, "[" + ", ".join(txt) + "]")
                got = [obj] if oko else []
            else:
                raw = [{x} for x in seq]
                raw[j] = {str(seq[j])}  # 1 and "1" collide after the dataset's int conversion
                oko, obj = call(Dataset.from_raw_list, [raw, [{x} for x in names]])
                got = list(obj.rankings) if oko else []
            ctx.probe("overlap_refused" if not oko else "overlap_accepted")
            if not oko and not isinstance(obj, ValueError):
                report([("overlapping construction raised", f"{exc_label(obj)}: {str(obj)[:100]}", "ValueError")],
                       "C16/derived-views", kind, {"via": via})
            bads = []
            for n_r, r0 in enumerate(got):
                bads += ranking_views(r0, f"{via}(overlapping)[{n_r}]")
            report(bads, "C16/derived-views", kind, {"via": via})
            ctx.probe("derived_checked")
        elif kind == "clobber_inputs":
            # a ranking owns its buckets: the sets and lists the caller built it from stay the caller's, and editing
            # them after the construction (the scratch-set idiom) must not reach the ranking
            as_el = bool(op.get("as_elements"))
            caller_inputs = [[build_bucket(sorted(b, key=model.sort_key), as_el) for b in r] for r in before]
            okc, objs = call(lambda: [Ranking(raw) for raw in caller_inputs])
            if not okc:
                continue
            want = [canon_ranking(r0) for r0 in objs]
            # ... and a dataset owns its list of rankings: the caller's list stays the caller's as well
            caller_list = list(objs)
            okd2, ds2 = call(Dataset, caller_list) if objs else (False, None)
            want_ds2 = canon_rankings(ds2.rankings) if okd2 else None
            if op["how"] in ("clear", "refill"):
                caller_list.clear()
            else:
                caller_list.reverse()
                caller_list.append(Ranking([{"clobbered"}]))
            for n_r, raw in enumerate(caller_inputs):
                if op["how"] == "append_bucket":
                    raw.append({"clobbered-%d" % n_r})
                    continue
                for n_b, bucket in enumerate(raw):
                    if op["how"] == "clear":
                        bucket.clear()
                    elif op["how"] == "add":
                        bucket.add(Element("clobbered") if as_el else "clobbered")
                    else:  # emptied and refilled with what comes next
                        nxt = list(raw[(n_b + 1) % len(raw)])
                        bucket.clear()
                        bucket.update(nxt)
            ctx.probe("inputs_clobbered")
            bads = []
            for n_r, r0 in enumerate(objs):
                if canon_ranking(r0) != want[n_r]:
                    bads.append((f"Ranking(caller's sets)[{n_r}] after the caller edited its own sets",
                                 jsonable_ranking(canon_ranking(r0)), jsonable_ranking(want[n_r])))
                bads += ranking_views(r0, f"Ranking(caller's sets)[{n_r}]")
            if okd2:
                if canon_rankings(ds2.rankings) != want_ds2:
                    bads.append(("Dataset(caller's list) after the caller edited its own list and sets",
                                 model.canon(canon_rankings(ds2.rankings)), model.canon(want_ds2)))
                bads += dataset_views(ds2, "Dataset(caller's list)")
            report(bads, "C16/derived-views", kind, {"how": op["how"], "as_elements": as_el})
            ctx.probe("derived_checked")
        elif kind == "parse":
            # a ranking obtained by parsing the text of one of the dataset's rankings
            if not ds.rankings:
                continue
            r0 = ds.rankings[op["which"] % len(ds.rankings)]
            text = str(r0)
            if op["notation"] == "bracket":
                text = "[" + text[1:-1].replace("{", "[").replace("}", "]") + "]"
            okp, pr = call(Ranking.from_string, text)
            if okp:
                ctx.probe("parsed_ranking_checked")
                ctx.probe("derived_checked")
                report(ranking_views(pr, "Ranking.from_string()"), "C16/derived-views", kind)
        else:
            ctx.probe("views_checked")
            report(dataset_views(ds), "C16/views", "views")
        recheck_live(kind)
        ctx.event(kind, outcome, model.canon(canon_rankings(ds.rankings)))


def _after_mutator(ctx, ds, before, okm, res, opname, expected_fn, report, keep_empties=True):
    after = canon_rankings(ds.rankings)
    shape = [len(after), len(model.universe(after))]
    if okm:
        ctx.probe("mutator_ok")
        if after != before:
            ctx.probe("mutator_changed")
        ctx.state([opname, "ok", shape])
        want = model.renorm(expected_fn())
        # emptied rankings may be kept or dropped: the statement does not say
        ne = lambda rs: [r for r in rs if len(r) > 0]
        if ne(after) != ne(want):
            report([("rankings after " + opname, model.canon(after), model.canon(want))], "C16/mutation-result", opname)
        ctx.probe("views_checked")
        report(dataset_views(ds), "C16/views", opname)
    else:
        ctx.probe("mutator_failed")
        ctx.probe("mutator_failed_" + exc_label(res))
        ctx.state([opname, exc_label(res), shape])
        if not isinstance(res, (KeyError, EmptyDatasetException, ValueError)):
            report([("mutator raised", f"{exc_label(res)}: {str(res)[:120]}", "KeyError / EmptyDatasetException")],
                   "C16/mutator-raised", opname)
        # crash point: old state or new state, never a mixture
        report(dataset_views(ds), "C16/after-failed-mutator", opname, {"exc": exc_label(res)})
