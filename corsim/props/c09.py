"""C09 - BioConsert is never worse than any of its starting points.

Simulator dimensions: (1) RNG schedule of randomised starters - the starter's *own* consensus is only defined per
schedule, so it is captured by a spy peer in the very run that is judged; (2) set-iteration order (hash seed of
the cell, insertion order of every bucket) - it decides the id assignment in Dataset._analyse_rankings, in
unified_dataset() and in Dataset(rankings_cons), which is exactly the uncontrolled input the failure mode
depends on. Oracle: reference scorer on the spied start rankings.
"""
from .. import gen, model
from ..lib import (build_dataset, build_scheme, canon_ranking, jsonable_ranking, uses_random, canon_rankings, call,
                   Element)
from ..seed import digest
from .common import Discard, run_alg, well_formed, dataset_tags

ID = "C09"
ENVS = ["absent"]
RUNS = {"quick": 96000, "thorough": 960000}
RULE = ("case = (dataset with independent first-appearance / insertion orders, valid scheme, BioConsert configurations "
        "with spied starters and RNG schedules) in a cell with its own hash seed; distinct = distinct case digest; "
        "non-trivial = a result over >= 3 elements was compared with at least one start ranking")
LEVEL_TEXT = ("seeded search over datasets x schemes x starter lists x pivot schedules x hash seeds; each result is "
              "compared by the reference scorer with the start rankings recorded by spy peers in the same run")
ASSUMPTIONS = ["reference scorer; dyadic penalties for exact comparisons (1e-6 slack otherwise)"]
EXPECTED_PROBES = ["starter_compared", "own_consensus_compared", "input_compared", "all_tied_compared", "equal_scores_checked", "kwiksort_starter"]


def gen_case(st, tier, env):
    w, k = st.workload, st.knobs
    ds = gen.gen_dataset(w, n_max=k.choice([4, 5, 6, 8]), m_max=6, n_min=2)
    dy = k.random() < 0.8
    scheme = gen.gen_scheme(w, dyadic=dy)
    calls = []
    for _ in range(k.choice([2, 3, 4])):
        r = k.random()
        if r < 0.2:
            a = {"alg": "BioConsert"}
        elif r < 0.3:
            a = {"alg": "BioCo"}
        else:
            a = {"alg": "BioConsert", "starters": gen.gen_starters(w)}
        calls.append({"alg": a, "one": k.choice([False, True]), "sched": gen.gen_sched(st.schedule)})

    # history dimension: the algorithm instances are shared by all calls of the run and the Dataset object may be
    # edited in place between two calls (anything cached on an instance or on the dataset must follow)
    if k.random() < 0.3 and len(calls) >= 2:
        at = w.randrange(1, len(calls))
        calls.insert(at, {"mutate": w.choice(["remove_elements", "remove_empty", "remove_empty", "remove_rate"]),
                          "pick": [w.randrange(64)], "rate": w.choice([0.0, 0.3, 0.5])})
    return {"dataset": ds, "scheme": scheme, "calls": calls, "dyadic": dy}


def nontrivial(probes):
    return probes.get("compared_n3", 0) > 0


def run_case(case, ctx):
    mr = model.normalise(case["dataset"]["rankings"])
    elems = model.universe(mr)
    B, T = case["scheme"]["B"], case["scheme"]["T"]
    tags = dataset_tags(mr, case["scheme"])
    ds = build_dataset(case["dataset"])
    sc = build_scheme(case["scheme"])
    slack = 1e-9 if case.get("dyadic", True) else 1e-6
    ctx.event("world", model.canon(mr), B, T)
    for c in case["calls"]:
        if "mutate" in c:
            univ = model.universe(mr)
            if c["mutate"] == "remove_elements" and len(univ) > 2:
                call(ds.remove_elements, {Element(univ[c["pick"][0] % len(univ)])})
            elif c["mutate"] == "remove_rate":
                call(ds.remove_elements_rate_presence_lower_than, c["rate"])
            else:
                call(ds.remove_empty_rankings)
            mr = canon_rankings(ds.rankings)
            elems = model.universe(mr)
            tags = dataset_tags(mr, case["scheme"])
            tags["after_mutation"] = c["mutate"]
            ctx.probe("mutated_in_place")
            ctx.event("mutate", c["mutate"], model.canon(mr))
            pass
            continue
        try:
            out = run_alg(c["alg"], ds, sc, c["one"], c["sched"], spy_nested=True)
        except Discard:
            ctx.probe("discarded_stub_capacity")
            continue
        ctx.event("call", out.label, out.brief(), out.picks)
        if out.kind != "returned":
            ctx.probe(out.kind)
            continue
        if well_formed(out.cons, mr, False):
            ctx.probe("malformed_skipped")
            continue
        got = [canon_ranking(r) for r in out.cons.consensus_rankings]
        scores = [model.ref_score(r, mr, B, T) for r in got]
        t = dict(tags, alg=out.label)
        repro = dict(case, calls=[dict(c, sched={"draws": out.picks, "fallback": "first", "seed": 0})])
        ctx.state([jsonable_ranking(r) for r in got])
        if out.picks:
            ctx.schedules.add(digest([case["dataset"]["rankings"], out.label, out.picks]))

        def worse_than(start, what):
            s0 = model.ref_score(start, mr, B, T)
            if len(elems) >= 3:
                ctx.probe("compared_n3")
            if max(scores) > s0 + slack:
                ctx.violate("C09/worse-than-start", {"result": jsonable_ranking(got[scores.index(max(scores))]),
                                                     "result_score": max(scores), "start": jsonable_ranking(start),
                                                     "start_score": s0, "start_kind": what},
                            "result score <= score of every starting point", dict(t, start_kind=what), out.label)
                ctx.violations[-1]["case_override"] = repro

        ctx.probe("equal_scores_checked")
        if max(scores) - min(scores) > slack:
            ctx.violate("C09/unequal-scores", {"rankings": [jsonable_ranking(r) for r in got], "scores": scores},
                        "all returned rankings share the best score found", t, out.label)
            ctx.violations[-1]["case_override"] = repro
        starters = c["alg"].get("starters") or ([{"alg": "BordaCount"}] if c["alg"]["alg"] == "BioCo" else [])
        # every *deterministic* starter has one well-defined consensus of its own, whether or not BioConsert asked
        # for it: compute it directly (a starter silently dropped from the list is still a starting algorithm)
        for st_spec in starters:
            if uses_random(st_spec):
                continue
            own = run_alg(st_spec, ds, sc, True, None)
            if own.kind == "returned" and not well_formed(own.cons, mr, False):
                ctx.probe("own_consensus_compared")
                worse_than(canon_ranking(own.cons.consensus_rankings[0]), "own-consensus:" + st_spec["alg"])
        if out.spies:
            for spy in out.spies:
                for rec in spy.calls:
                    if rec["result"] is None:
                        continue
                    if well_formed(rec["result"], mr, False):
                        ctx.probe("starter_malformed_skipped")
                        continue
                    ctx.probe("starter_compared")
                    name = type(spy.inner).__name__
                    if name == "KwikSortRandom":
                        ctx.probe("kwiksort_starter")
                    worse_than(canon_ranking(rec["result"].consensus_rankings[0]), "starter:" + name)
        elif c["alg"]["alg"] == "BioCo":
            # BioCo builds its own Borda starter: recompute Borda's consensus (deterministic) as the start
            bo = run_alg({"alg": "BordaCount"}, ds, sc, True, None)
            if bo.kind == "returned" and not well_formed(bo.cons, mr, False):
                ctx.probe("starter_compared")
                worse_than(canon_ranking(bo.cons.consensus_rankings[0]), "starter:BordaCount(BioCo)")
        elif not starters:
            for r in model.unify(mr):
                if len(r) == 0:
                    continue
                ctx.probe("input_compared")
                worse_than(r, "unified-input")
            ctx.probe("all_tied_compared")
            worse_than((frozenset(elems),), "all-tied")
