"""C15 - computing a consensus never modifies its inputs; results are repeatable.

A statement about *histories on shared objects*: two worlds are built from one spec - `shared` (one Dataset, one
ScoringScheme, one instance per algorithm configuration, all reused by every operation) and `fresh` (every operation
gets newly built equal objects). The RNG trace an operation consumed in the shared world is replayed into the same
operation in the fresh world, which is what makes KwikSort comparable at all. Refusals are ordinary members of the
history; additionally the solver peer can fail the k-th solve of the run (PulpSolverError / not solved): the abort
itself is not judged, but the invariants must still hold after it and later operations must still agree with the
fresh world (clause C15/after-peer-fault).
"""
import copy

from .. import gen, model, sched
from ..lib import (build_dataset, build_scheme, build_alg, call, canon_ranking, canon_rankings, exc_label, key_of,
                   alg_label, jsonable_ranking, uses_random, Consensus, ConsensusFeature, OrderedPartition,
                   KemenyComputingFactory, Dataset, Element, REFUSALS)
from ..simfs import SimFS
from ..solverpeer import FaultySolverFactory
from ..seed import digest
from .common import Discard, apply_mutation

ID = "C15"
ENVS = ["absent", "present", "broken", "absent"]
RUNS = {"quick": 8000, "thorough": 80000}
RULE = ("case = (dataset, scheme, history of 5-40 operations on shared objects: algorithm runs with RNG schedules, "
        "score/description reads of earlier consensuses, partitions, scheme arithmetic, derivations, file write, and "
        "optionally one solver-peer fault at the k-th solve); distinct = distinct case digest; non-trivial = at least "
        "three operations returned and were compared with the fresh-copy world")
LEVEL_TEXT = ("seeded search over histories on shared objects x RNG schedules x solver-peer faults x cplex environments; "
              "after every operation a deep snapshot of the shared dataset and scheme is compared with the snapshot "
              "taken at construction, and the operation's result is compared with the same operation on fresh copies")
ASSUMPTIONS = ["snapshots cover rankings, buckets, positions, both id maps, flags, name and both penalty vectors",
               "C15/after-peer-fault reads 'running any algorithm' as including a run aborted by a solver failure"]
EXPECTED_PROBES = ["ops_compared", "refusals_in_history", "solver_fault_fired", "twice_checked", "random_replayed",
                   "reads_after_runs"]
STATES_MEASURE = "distinct op-kind bigrams"

SIMPLE_OPS = ["parcons_partition", "parfront_partition", "scheme_mul", "is_equivalent_to", "nickname",
              "scheme_description", "unified_rankings", "unified_dataset", "sub_problem", "get_positions",
              "get_bucket_ids", "eq_other", "write", "dataset_description", "str_dataset", "predicate"]


def gen_case(st, tier, env):
    w, k = st.workload, st.knobs
    ds = gen.gen_dataset(w, n_max=k.choice([4, 5, 6]), m_max=5)
    scheme = gen.gen_scheme(w, dyadic=k.random() < 0.7)
    if k.random() < 0.1:
        # very small / very large penalties are valid schemes; nothing here compares scores, only worlds
        scheme = dict(gen.scale(scheme, 10.0 ** k.choice([-6, -5, 5, 6])), family=scheme.get("family", "") + "/magnitude")
    nops = k.choice([5, 8, 12, 20, 40])
    heavy_left = 6  # bound the number of ILP runs per history
    algs = [gen.gen_alg(w, env, heavy_ok=True) for _ in range(k.choice([2, 3, 4]))]
    ops = []
    for _ in range(nops):
        r = w.random()
        if r < 0.45:
            a = w.choice(algs)
            if a["alg"].startswith("Exact") or a["alg"] == "ParCons":
                if heavy_left <= 0:
                    a = {"alg": w.choice(["BioConsert", "BordaCount", "CopelandMethod", "KwikSortRandom"])}
                heavy_left -= 1
            ops.append({"op": "run", "alg": a, "one": w.choice([True, False, None]),
                        "sched": gen.gen_sched(st.schedule)})
        elif r < 0.5:
            # the user edits the shared dataset in place; the fresh-copy world replays the same edits on its copies
            ops.append({"op": "mutate", "mutation": gen.gen_mutation(w), "ds": int(w.random() < 0.25)})
        elif r < 0.68:
            ops.append({"op": "read", "target": w.randrange(64),
                        "what": w.choice(["kemeny_score", "description", "str", "features", "consistent_with",
                                          "kemeny_factory"])})
        else:
            ops.append({"op": w.choice(SIMPLE_OPS), "pick": [w.randrange(64) for _ in range(w.randint(1, 3))],
                        "k": w.choice([2, 0.5, 3, 1])})
    fault = None
    if st.faults.random() < 0.35:
        fault = {"fail_at": st.faults.choice([0, 0, 1, 1, 2, 3]), "mode": st.faults.choice(["raise", "notsolved"])}
    # a second dataset and scheme visit the same shared algorithm instances in between (state cached on an instance
    # or at module level and keyed too coarsely only shows when the inputs change and come back)
    ds2 = gen.gen_dataset(w, n_max=k.choice([3, 4, 5]), m_max=4)
    scheme2 = gen.gen_scheme(w, dyadic=True)
    for op in ops:
        if w.random() < 0.25:
            op["ds"] = 1
        if w.random() < 0.2:
            op["sc"] = 1
    return {"dataset": ds, "scheme": scheme, "dataset2": ds2, "scheme2": scheme2, "ops": ops, "solver_fault": fault}


def nontrivial(probes):
    return probes.get("ops_compared", 0) >= 3


def snap_dataset(ds):
    return {
        "rankings": [jsonable_ranking(canon_ranking(r)) for r in ds.rankings],
        "positions": [sorted(([repr(key_of(e)), p] for e, p in r.positions.items())) for r in ds.rankings],
        "e2i": sorted([repr(key_of(e)), i] for e, i in ds.mapping_elem_id.items()),
        "i2e": sorted([i, repr(key_of(e))] for i, e in ds.mapping_id_elem.items()),
        "types": sorted({e.type.__name__ for r in ds.rankings for b in r.buckets for e in b}),
        "complete": bool(ds.is_complete), "without_ties": bool(ds.without_ties), "name": ds.name,
        "nb_elements": ds.nb_elements, "nb_rankings": ds.nb_rankings,
    }


def snap_scheme(sc):
    return [[float(v) for v in vec] for vec in sc.penalty_vectors]


def _canon_result(res):
    """JSON-able, hash-order independent rendering of an operation's result."""
    import numpy as np
    if isinstance(res, Consensus):
        return {"consensus": [jsonable_ranking(canon_ranking(r)) for r in res.consensus_rankings],
                "optimal": bool(res.necessarily_optimal)}
    if isinstance(res, OrderedPartition):
        return {"partition": [sorted((key_of(e) for e in g), key=model.sort_key) for g in res.partition]}
    if isinstance(res, Dataset):
        return {"dataset": [jsonable_ranking(canon_ranking(r)) for r in res.rankings]}
    if isinstance(res, np.ndarray):
        return res.tolist()
    if isinstance(res, (np.floating, np.integer)):
        return float(res)
    if isinstance(res, list) and res and hasattr(res[0], "buckets"):
        return [jsonable_ranking(canon_ranking(r)) for r in res]
    if isinstance(res, (bool, int, float, str)) or res is None:
        return res
    if hasattr(res, "penalty_vectors"):
        return snap_scheme(res)
    return repr(res)


class World:
    def __init__(self, case, shared: bool):
        self.case, self.shared = case, shared
        self.dspecs = [case["dataset"], case.get("dataset2") or case["dataset"]]
        self.sspecs = [case["scheme"], case.get("scheme2") or case["scheme"]]
        self.dss = [build_dataset(d) for d in self.dspecs] if shared else None
        self.scs = [build_scheme(x) for x in self.sspecs] if shared else None
        self.algs = {}
        self.mutations = [[], []]  # in-place edits applied so far to dataset 0 / 1 (replayed on fresh copies)
        self.consensuses = []  # results of "run" ops that returned, in order

    @property
    def ds(self):
        return self.dss[0]

    @property
    def sc(self):
        return self.scs[0]

    def dataset(self, which=0):
        if self.shared:
            return self.dss[which]
        d = build_dataset(self.dspecs[which])
        for mut in self.mutations[which]:
            apply_mutation(d, mut)
        return d

    def scheme(self, which=0):
        return self.scs[which] if self.shared else build_scheme(self.sspecs[which])

    def alg(self, spec):
        if not self.shared:
            return build_alg(spec)
        lab = alg_label(spec)
        if lab not in self.algs:
            self.algs[lab] = build_alg(spec)
        return self.algs[lab]


def _do(world, op, draws_spec, univ, univ2=()):
    """Execute one op in a world. Returns (kind, canonical result, picks, raw result)."""
    s = sched.Sched.from_spec(draws_spec)
    sched.set_current(s)
    fs = None
    try:
        kind = op["op"]
        wd, wsc = op.get("ds", 0), op.get("sc", 0)
        ds, sc = world.dataset(wd), world.scheme(wsc)
        if wd:
            univ = univ2
        if kind == "mutate":
            if world.shared:
                apply_mutation(ds, op["mutation"])
            world.mutations[wd].append(op["mutation"])
            d_now = world.dataset(wd)
            return "returned", _canon_result(d_now), [], None
        if kind == "run":
            okb, alg = call(world.alg, op["alg"])
            if not okb:
                return "raised:" + exc_label(alg), None, s.picks(), None
            if op["one"] is None:
                ok, res = call(alg.compute_consensus_rankings, ds, sc)
            else:
                ok, res = call(alg.compute_consensus_rankings, ds, sc, op["one"])
        elif kind == "read":
            if not world.consensuses:
                return "skipped", None, [], None
            cons = world.consensuses[op["target"] % len(world.consensuses)]
            if cons is None:
                return "skipped", None, [], None
            cons, cwd, cws = cons
            ds, sc = world.dataset(cwd), world.scheme(cws)  # a consensus is read against its own inputs
            what = op["what"]
            if what == "kemeny_score":
                ok, res = call(lambda: cons.kemeny_score)
            elif what == "description":
                ok, res = call(cons.description)
                if ok:
                    res = "<text>"  # contains set renderings; only its side effects matter here
            elif what == "str":
                ok, res = call(lambda: str(cons) and "<text>")
            elif what == "features":
                ok, res = call(lambda: sorted(f.name for f in cons.features))
            elif what == "consistent_with":
                okp, part = call(OrderedPartition.parcons_partition, ds, sc)
                ok, res = call(part.consistent_with, cons) if okp else (False, part)
            else:
                ok, res = call(KemenyComputingFactory(sc).get_kemeny_score, cons.consensus_rankings[0], ds)
        elif kind == "parcons_partition":
            ok, res = call(OrderedPartition.parcons_partition, ds, sc)
        elif kind == "parfront_partition":
            ok, res = call(OrderedPartition.parfront_partition, ds, sc)
        elif kind == "scheme_mul":
            ok, res = call(lambda: sc * op["k"])
        elif kind == "is_equivalent_to":
            ok, res = call(sc.is_equivalent_to, build_scheme(gen.preset("unifying", 1.0)))
        elif kind == "nickname":
            ok, res = call(sc.get_nickname)
        elif kind == "scheme_description":
            ok, res = call(sc.description)
        elif kind == "unified_rankings":
            ok, res = call(ds.unified_rankings)
        elif kind == "unified_dataset":
            ok, res = call(ds.unified_dataset)
        elif kind == "sub_problem":
            keep = {Element(univ[i % len(univ)]) for i in op["pick"]} if univ else set()
            ok, res = call(ds.sub_problem_from_elements, keep)
        elif kind == "get_positions":
            ok, res = call(ds.get_positions)
        elif kind == "get_bucket_ids":
            ok, res = call(ds.get_bucket_ids)
        elif kind == "eq_other":
            ok, res = call(lambda: ds == build_dataset(world.dspecs[wd]))
        elif kind == "write":
            fs = SimFS()
            fs.install()
            ok, res = call(ds.write, "h.txt")
            if ok:
                res = fs.files.get(fs.norm("h.txt"))
        elif kind == "dataset_description":
            ok, res = call(lambda: ds.description() and "<text>")
        elif kind == "str_dataset":
            ok, res = call(lambda: str(ds) and "<text>")
        elif kind == "predicate":
            okb, alg = call(world.alg, {"alg": "BordaCount"})
            ok, res = call(alg.is_scoring_scheme_relevant_when_incomplete_rankings, sc)
        else:
            return "skipped", None, [], None
        if not ok:
            if type(res).__name__ == "StubCapacity":
                raise Discard(str(res))
            tag = "refused:" if isinstance(res, REFUSALS) else "raised:"
            return tag + exc_label(res), None, s.picks(), None
        return "returned", _canon_result(res), s.picks(), res
    finally:
        sched.set_current(None)
        if fs is not None:
            fs.uninstall()


def run_case(case, ctx):
    shared = World(case, True)
    fresh = World(case, False)
    mr = model.normalise(case["dataset"]["rankings"])
    univ = model.universe(mr)
    univ2 = model.universe(model.normalise((case.get("dataset2") or case["dataset"])["rankings"]))
    snap_all = lambda: ([snap_dataset(d) for d in shared.dss], [snap_scheme(x) for x in shared.scs])
    snap0_ds, snap0_sc = snap_all()
    ctx.event("world", model.canon(mr), case["scheme"]["B"], case["scheme"]["T"], ctx.env)
    fault = case.get("solver_fault")
    factory = FaultySolverFactory(fault["fail_at"] if fault else None, fault["mode"] if fault else "raise",
                                  on_fire=ctx.fault)
    factory.install()
    prev_kind = "start"
    fault_seen = False
    try:
        for i, op in enumerate(case["ops"]):
            kind = op["op"]
            label = alg_label(op["alg"]) if kind == "run" else (kind + (":" + op["what"] if kind == "read" else "") +
                                                                  (":" + op["mutation"]["mutate"] if kind == "mutate" else ""))
            repro = dict(case, ops=case["ops"][:i + 1])
            # ---- shared world (solver fault armed) ------------------------------------------------------------
            fired0 = factory.fired
            factory.armed = True
            try:
                k1, r1, picks, raw1 = _do(shared, op, op.get("sched"), univ, univ2)
            except Discard:
                ctx.probe("discarded_stub_capacity")
                return
            aborted_by_fault = factory.fired > fired0
            if aborted_by_fault:
                fault_seen = True
                ctx.probe("solver_fault_fired")
            # ---- fresh world (no fault; replay the RNG trace) -------------------------------------------------
            factory.armed = False
            try:
                k2, r2, picks2, raw2 = _do(fresh, op, {"draws": picks, "fallback": "first", "seed": 0}, univ, univ2)
            except Discard:
                ctx.probe("discarded_stub_capacity")
                return
            if kind == "run":
                sel = (op.get("ds", 0), op.get("sc", 0))
                shared.consensuses.append((raw1,) + sel if k1 == "returned" else None)
                fresh.consensuses.append((raw2,) + sel if k2 == "returned" else None)
                if k1 != "returned" or k2 != "returned" or aborted_by_fault:
                    # keep the two lists aligned: a read only makes sense when both worlds have the object (and
                    # whatever a run aborted by a peer fault handed out is not an object the statement speaks about)
                    shared.consensuses[-1] = fresh.consensuses[-1] = None
            if kind == "mutate":
                snap0_ds, snap0_sc = snap_all()
                wd_m = op.get("ds", 0)
                for lst in (shared.consensuses, fresh.consensuses):
                    for j, c0 in enumerate(lst):
                        if c0 is not None and c0[1] == wd_m:
                            lst[j] = None
                ctx.probe("user_mutations")
            ctx.event(kind, label, k1, picks, "fault" if aborted_by_fault else "")
            ctx.state([prev_kind, kind])
            prev_kind = kind
            if k1.startswith("refused"):
                ctx.probe("refusals_in_history")
            if kind == "read" and k1 == "returned":
                ctx.probe("reads_after_runs")
            t = {"op": kind, "label": label, "env": ctx.env, "after_fault": fault_seen,
                 "index_in_history": i}
            after = "C15/after-peer-fault" if fault_seen else None
            # ---- invariant: inputs untouched ----------------------------------------------------------------------
            sd, ss = snap_all()
            if sd != snap0_ds:
                w_i = 0 if sd[0] != snap0_ds[0] else 1
                diff = [k for k in sd[w_i] if sd[w_i][k] != snap0_ds[w_i][k]]
                ctx.violate(after or "C15/dataset-modified", {"op": label, "dataset": w_i, "changed": diff,
                                                              "now": {k: sd[w_i][k] for k in diff},
                                                              "was": {k: snap0_ds[w_i][k] for k in diff}},
                            "the dataset exactly as it was", dict(t, changed=diff[0]), label)
                ctx.violations[-1]["case_override"] = repro
                return
            if ss != snap0_sc:
                ctx.violate(after or "C15/scheme-modified", {"op": label, "now": ss, "was": snap0_sc},
                            "the scoring scheme exactly as it was", t, label)
                ctx.violations[-1]["case_override"] = repro
                return
            # ---- history: shared world == fresh world -----------------------------------------------------------------
            if aborted_by_fault:
                continue  # the aborted operation itself is not judged
            if k1 == "skipped":
                continue
            ctx.probe("ops_compared")
            if picks:
                ctx.probe("random_replayed")
                ctx.schedules.add(digest([label, picks]))
            if (k1, r1) != (k2, r2) or picks != picks2:
                ctx.violate(after or "C15/shared-vs-fresh", {"op": label, "shared": [k1, r1], "fresh": [k2, r2],
                                                             "draws": [picks, picks2]},
                            "same result on shared objects as on fresh copies", t, label)
                ctx.violations[-1]["case_override"] = repro
                return
            # ---- twice in a row on the same inputs ---------------------------------------------------------------------
            if kind == "run" and k1 == "returned":
                factory.armed = False
                try:
                    # KwikSort-free configurations must not depend on any draw: ask again under another schedule
                    again = {"draws": picks, "fallback": "first", "seed": 0} if uses_random(op["alg"]) else \
                        {"draws": [], "fallback": "last" if (op.get("sched") or {}).get("fallback") != "last" else "first",
                         "seed": 1}
                    k3, r3, picks3, _ = _do(shared, op, again, univ, univ2)
                except Discard:
                    return
                ctx.probe("twice_checked")
                if (k3, r3) != (k1, r1):
                    ctx.violate(after or "C15/not-repeatable", {"op": label, "first": [k1, r1], "second": [k3, r3]},
                                "the same consensus when called twice on the same inputs "
                                "(KwikSort: under the same pivot schedule)", t, label)
                    ctx.violations[-1]["case_override"] = repro
                    return
                if snap_all() != (snap0_ds, snap0_sc):
                    ctx.violate(after or "C15/dataset-modified", {"op": label + " (second call)"},
                                "the inputs exactly as they were", t, label)
                    ctx.violations[-1]["case_override"] = repro
                    return
    finally:
        factory.uninstall()
