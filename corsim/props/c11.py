"""C11 - KwikSort's result is pivot-independent when pairwise preferences cohere; per-step placement.

Simulator dimension: the RNG schedule. Every `choice(elements)` of KwikSortRandom is a scheduler decision that is
recorded (remaining elements, pivot) and replayed into an executable reference KwikSort (refinement).
"""
from .. import gen, model, sched
from ..lib import build_dataset, build_scheme, call, canon_ranking, key_of, exc_label, jsonable_ranking, canon_rankings
from .common import apply_mutation
from ..lib import KwikSortRandom
from ..seed import digest

ID = "C11"
ENVS = ["absent"]
RUNS = {"quick": 128000, "thorough": 1280000}
RULE = ("case = (dataset with insertion orders, valid scheme, list of pivot schedules | sweep of the whole "
        "pivot-choice tree); distinct = distinct case digest; non-trivial = at least one recursion step compared "
        "an element with a pivot (universe >= 2)")
LEVEL_TEXT = ("seeded search over datasets x schemes x pivot schedules; each KwikSort execution is refined against "
              "an executable reference KwikSort fed with the same recorded pivots; thorough tier additionally walks "
              "the complete pivot-choice tree of small universes")
ASSUMPTIONS = ["reference cost table and decision rule (model.py) are written from the statement",
               "penalties are dyadic (k/8) so cost comparisons are exact in binary64"]
SWEEP_LEAF_CAP = 800


def gen_case(st, tier, env):
    w, k = st.workload, st.knobs
    fam = k.random()
    if fam < 0.15:
        # identical complete rankings: must come back unchanged when B[2] > 0 and T[0] > 0
        n = k.randint(1, 7)
        _, pool_name, pool = gen.pick_pool(w, n)
        base = gen.gen_ranking(w, pool, 0.0, k.choice([0.0, 0.3, 0.6]), False)
        m = k.randint(1, 5)
        rankings = []
        for _ in range(m):
            r = [list(b) for b in base]
            for b in r:
                w.shuffle(b)
            rankings.append(r)
        ds = {"rankings": rankings, "as_elements": w.random() < 0.3, "ctor": "Dataset", "pool": pool_name + "/identical"}
    elif fam < 0.35:
        ds = gen.gen_dataset(w, n_max=7, m_max=6, complete=True)
    else:
        ds = gen.gen_dataset(w, n_max=7, m_max=6)
    scheme = gen.gen_scheme(w)
    if k.random() < 0.06:
        scheme = gen.gen_huge_int_scheme(w) if k.random() < 0.6 else gen.gen_mixed_magnitude_scheme(w)  # exact ints
    n_univ = len({e for r in ds["rankings"] for b in r for e in b})
    sweep = tier == "thorough" and n_univ <= 5 and k.random() < 0.5
    nsched = k.choice([2, 4, 8])
    scheds = []
    for i in range(nsched):
        s = gen.gen_sched(st.schedule)
        scheds.append(s)
    case = {"dataset": ds, "scheme": scheme, "scheds": scheds, "sweep": sweep}
    if k.random() < 0.2 and not sweep:
        # history: the Dataset object is edited in place between two executions (whatever a first execution cached
        # on the dataset - positions, unified rankings - must follow the edit)
        case["mutate_after"] = k.randrange(1, max(2, len(scheds)))
        case["mutation"] = gen.gen_mutation(w)
    return case


def nontrivial(probes):
    return probes.get("steps_checked", 0) > 0


_KS = {}


def _one_execution(ds, sc, s, elems, idx, cost, W, identical, ctx, case):
    events = []

    def obs(site, seq, pick):
        if site == "choice":
            events.append(([key_of(e) for e in seq], key_of(seq[pick])))

    sched.draw_observers.append(obs)
    sched.set_current(s)
    try:
        ok, cons = call(_KS["alg"].compute_consensus_rankings, ds, sc, True)
    finally:
        sched.set_current(None)
        sched.draw_observers.remove(obs)
    picks = s.picks()
    ctx.schedules.add(digest([case["dataset"]["rankings"], picks]))
    repro = dict(case, scheds=[{"draws": picks, "fallback": "first", "seed": 0}], sweep=False)
    if not ok:
        ctx.event("kwiksort", "raised", exc_label(cons), picks)
        ctx.violate("C11/raised", exc_label(cons) + ": " + str(cons)[:200],
                    "a ranking (KwikSort accepts every dataset and scheme)", {"draws": picks}, "KwikSortRandom")
        ctx.violations[-1]["case_override"] = repro
        return
    if not cons.consensus_rankings:
        ctx.violate("C11/no-ranking", "empty consensus", "one ranking", {"draws": picks})
        ctx.violations[-1]["case_override"] = repro
        return
    res = canon_ranking(cons.consensus_rankings[0])
    ctx.event("kwiksort", picks, jsonable_ranking(res))
    ctx.state(jsonable_ranking(res))
    bk = model.bucket_of(res)
    ctx.probe("executions")
    ctx.probe("depth_%d" % min(len(events), 6))

    def bad(clause, observed, expected, extra=None):
        tags = {"draws": picks}
        tags.update(extra or {})
        ctx.violate(clause, observed, expected, tags, "KwikSortRandom")
        ctx.violations[-1]["case_override"] = repro

    # (1) per-step clause: every element is placed relative to the pivot of its recursion step
    for remaining, pivot in events:
        if pivot not in idx:
            bad("C11/per-step", f"pivot {pivot!r} is not an element of the dataset", "pivot among remaining elements")
            continue
        for e in remaining:
            if e == pivot:
                continue
            if e not in idx:
                bad("C11/per-step", f"foreign element {e!r} in recursion step", "elements of the universe")
                continue
            want = model.kwik_decision(cost, idx[e], idx[pivot])
            if e not in bk or pivot not in bk:
                bad("C11/per-step", f"{e!r} or pivot {pivot!r} missing from the result", "both placed")
                continue
            got = -1 if bk[e] < bk[pivot] else 1 if bk[e] > bk[pivot] else 0
            ctx.probe("steps_checked")
            if got != want:
                bad("C11/per-step",
                    {"element": e, "pivot": pivot, "placed": got, "result": jsonable_ranking(res)},
                    {"cheapest_placement": want, "costs(before,after,tied)": [float(v) for v in cost[idx[e]][idx[pivot]]]})
    # (2) refinement against the reference KwikSort with the same pivots
    pivots = {}
    for remaining, pivot in events:
        pivots[frozenset(idx.get(e, -1) for e in remaining)] = idx.get(pivot, -1)
    try:
        ref = model.ref_kwiksort([idx[e] for e in events[0][0]] if events else list(range(len(elems))),
                                 cost, lambda rem: pivots[rem])
        ref_r = tuple(frozenset(elems[i] for i in b) for b in ref)
        ctx.probe("refined")
        if ref_r != res:
            bad("C11/refinement", jsonable_ranking(res), jsonable_ranking(ref_r))
    except KeyError:
        ctx.probe("refinement_skipped")  # recursion shaped differently: only the per-step clause applies
    # (3) coherent preferences: the result is that ranking, whatever the schedule
    if W is not None:
        ctx.probe("coherent")
        want_r = model.vec_to_ranking(W, elems)
        if res != want_r:
            bad("C11/coherent", jsonable_ranking(res), jsonable_ranking(want_r))
    if identical is not None:
        ctx.probe("identical")
        if res != identical:
            bad("C11/identical-unchanged", jsonable_ranking(res), jsonable_ranking(identical))


def run_case(case, ctx):
    _KS["alg"] = KwikSortRandom()  # one instance serves every execution of the run (and survives the in-place edit)
    mr = model.normalise(case["dataset"]["rankings"])
    elems = model.universe(mr)
    idx = {e: i for i, e in enumerate(elems)}
    B, T = case["scheme"]["B"], case["scheme"]["T"]
    cost = model.ref_cost(mr, elems, B, T)
    W = model.coherent_weak_order(cost)
    identical = None
    if len(set(mr)) == 1 and model.domain(mr[0]) == frozenset(elems) and B[2] > 0 and T[0] > 0:
        identical = mr[0]
    ds = build_dataset(case["dataset"])
    sc = build_scheme(case["scheme"])
    ctx.event("world", model.canon(mr), B, T)
    if case.get("sweep"):
        prefix, leaves = [], 0
        ctx.probe("trees_started")
        while True:
            s = sched.Sched(prefix, "first", 0)
            _one_execution(ds, sc, s, elems, idx, cost, W, identical, ctx, case)
            leaves += 1
            tr = s.trace
            j = len(tr) - 1
            while j >= 0 and tr[j][2] == tr[j][1] - 1:
                j -= 1
            if j < 0:
                ctx.probe("schedule_trees_swept")
                break
            if leaves >= SWEEP_LEAF_CAP:
                ctx.probe("trees_capped")
                break
            prefix = [t[2] for t in tr[:j]] + [tr[j][2] + 1]
        ctx.probe("sweep_leaves", leaves)
    else:
        for n_exec, sp in enumerate(case["scheds"]):
            if case.get("mutation") and n_exec == case.get("mutate_after"):
                apply_mutation(ds, case["mutation"])
                mr = canon_rankings(ds.rankings)
                elems = model.universe(mr)
                idx = {e: i for i, e in enumerate(elems)}
                cost = model.ref_cost(mr, elems, B, T)
                W = model.coherent_weak_order(cost)
                identical = None
                if mr and len(set(mr)) == 1 and model.domain(mr[0]) == frozenset(elems) and B[2] > 0 and T[0] > 0:
                    identical = mr[0]
                ctx.probe("mutated_in_place")
                ctx.event("mutate", case["mutation"]["mutate"], model.canon(mr))
            _one_execution(ds, sc, sched.Sched.from_spec(sp), elems, idx, cost, W, identical, ctx, case)
