"""C04 - the Kemeny score a consensus reports is the true score of each returned ranking.

Simulator dimensions: the score is a lazily filled cache (-1 = not computed yet), so what a caller sees depends on
the *order of reads* - the run performs a read history chosen by the schedule stream; score provenance differs
by cplex environment (selector -> CPLEX class -> lazy path, or -> PuLP -> objective read back from the CBC peer's
solution file) and by RNG schedule (KwikSort-started BioConsert).
"""
import math

import numpy as np

from .. import gen, model
from ..lib import build_dataset, build_scheme, canon_ranking, jsonable_ranking, call, exc_label, ConsensusFeature
from ..seed import digest
from .common import Discard, run_alg, well_formed, dataset_tags

ID = "C04"
ENVS = ["absent", "present", "broken", "absent"]
RUNS = {"quick": 16000, "thorough": 200000}
RULE = ("case = (two datasets, two valid schemes, a history interleaving 3-6 algorithm calls on shared algorithm "
        "instances (RNG schedule, return_at_most_one flag, which dataset/scheme) with reads of features[KEMENY_SCORE] / "
        "kemeny_score / description() / str() on any consensus made so far); distinct = distinct case digest; "
        "non-trivial = at least one reported score of a consensus over >= 2 elements was compared with the reference")
LEVEL_TEXT = ("seeded search over datasets x schemes x algorithm configurations x read histories x cplex environments; "
              "every reported number is compared (1e-6) with an independent reference scorer applied to every returned "
              "ranking")
ASSUMPTIONS = ["reference scorer model.ref_score is the double sum of the statement",
               "a features read before any score-computing read may show the documented -1 'not computed' sentinel"]
EXPECTED_PROBES = ["score_checked", "sentinel_seen", "supplied_score_checked", "lazy_score_checked"]
READS = ["features", "kemeny_score", "description", "str", "features", "kemeny_score"]


def gen_case(st, tier, env):
    w, k = st.workload, st.knobs
    ds = gen.gen_dataset(w, n_max=6 if k.random() < 0.8 else 8, m_max=6)
    scheme = gen.gen_scheme(w, dyadic=k.random() < 0.6)
    if k.random() < 0.08:
        # small magnitudes only: every reported number shrinks with the scheme, the 1e-6 of the statement does not
        scheme = dict(gen.scale(scheme, 10.0 ** k.choice([-6, -5, -5, -4, -3])), family=scheme.get("family", "") + "/small")
    # a second dataset / scheme: the same algorithm *instances* serve both, and the reads are interleaved, so a
    # score cached on an instance (or anywhere but the consensus it belongs to) shows up as another consensus' score
    ds2 = gen.gen_dataset(w, n_max=5, m_max=5)
    scheme2 = gen.gen_scheme(w, dyadic=k.random() < 0.6)
    n_univ = max(len({e for r in d["rankings"] for b in r for e in b}) for d in (ds, ds2))
    algs = [gen.gen_alg(w, env, heavy_ok=n_univ <= 6) for _ in range(k.choice([2, 3, 4]))]
    ops = []
    ncalls = k.choice([3, 4, 5, 6])
    made = 0
    while made < ncalls or len(ops) < ncalls + 3:
        if made < ncalls and (made == 0 or st.schedule.random() < 0.5):
            ops.append({"op": "call", "alg": w.choice(algs), "one": k.choice([True, False, None]),
                        "sched": gen.gen_sched(st.schedule), "ds": int(w.random() < 0.35), "sc": int(w.random() < 0.3)})
            made += 1
        else:
            ops.append({"op": "read", "t": st.schedule.randrange(64), "what": st.schedule.choice(READS)})
        if len(ops) > 24:
            break
    return {"dataset": ds, "scheme": scheme, "dataset2": ds2, "scheme2": scheme2, "ops": ops}


def nontrivial(probes):
    return probes.get("score_checked_n2", 0) > 0


def _is_real(v):
    return isinstance(v, (int, float, np.integer, np.floating)) and not isinstance(v, bool)


def run_case(case, ctx):
    dspecs = [case["dataset"], case.get("dataset2") or case["dataset"]]
    sspecs = [case["scheme"], case.get("scheme2") or case["scheme"]]
    mrs = [model.normalise(d["rankings"]) for d in dspecs]
    dss = [build_dataset(d) for d in dspecs]
    scs = [build_scheme(x) for x in sspecs]
    ctx.event("world", [model.canon(m) for m in mrs], [[x["B"], x["T"]] for x in sspecs], ctx.env)
    instances = {}
    made = []  # per consensus: dict(cons, rks, refs, computed, label, tags, history, call index)

    def check(c, v, how, supplied, repro):
        ctx.probe("score_checked")
        if c["tags"]["n"] >= 2:
            ctx.probe("score_checked_n2")
        ctx.probe("supplied_score_checked" if supplied else "lazy_score_checked")
        problem = None
        if v is None:
            problem = "absent (None)"
        elif not _is_real(v):
            problem = f"not a number: {type(v).__name__}"
        elif math.isnan(float(v)):
            problem = "NaN"
        elif float(v) < -1e-6:  # rounding noise within the statement's own 1e-6 tolerance is not "negative"
            problem = f"negative: {float(v)}"
        else:
            worst = max(abs(float(v) - r) for r in c["refs"])
            # 1e-6 is the statement's tolerance; the extra 1e-9 keeps a difference of *exactly* 1e-6 (a scheme scaled
            # to B[1] = 1e-6 next to the CPLEX pool's absolute gap of 1e-6) on the right side of binary64 rounding
            if worst > 1e-6 + 1e-9:
                problem = f"reported {float(v)!r}"
        if problem:
            ctx.violate("C04/wrong-score" if problem.startswith("reported") else "C04/absent-or-negative",
                        {"read": how, "value": problem, "rankings": [jsonable_ranking(r) for r in c["rks"]],
                         "consensus_no": c["no"], "reads_so_far": c["history"]},
                        {"reference_scores": c["refs"]}, dict(c["tags"], read=how, supplied=supplied), c["label"])
            ctx.violations[-1]["case_override"] = repro

    for i, op in enumerate(case["ops"]):
        repro = dict(case, ops=case["ops"][:i + 1])
        if op["op"] == "call":
            wd, ws = op.get("ds", 0), op.get("sc", 0)
            from ..lib import alg_label, build_alg, call as _call
            label = alg_label(op["alg"])
            if label not in instances:
                okb, inst = _call(build_alg, op["alg"])
                if not okb:
                    ctx.probe("constructor_raised")
                    continue
                instances[label] = inst
            try:
                out = run_alg(op["alg"], dss[wd], scs[ws], op["one"], op["sched"], alg=instances[label])
            except Discard:
                ctx.probe("discarded_stub_capacity")
                continue
            ctx.event("call", out.label, op["one"], wd, ws, out.brief(), out.picks)
            if out.kind != "returned":
                ctx.probe(out.kind)
                continue
            if well_formed(out.cons, mrs[wd], False):
                ctx.probe("malformed_skipped")  # cannot be scored; C03 reports it
                continue
            rks = [canon_ranking(r) for r in out.cons.consensus_rankings]
            B, T = sspecs[ws]["B"], sspecs[ws]["T"]
            refs = [model.ref_score(r, mrs[wd], B, T) for r in rks]
            ctx.event("result", [jsonable_ranking(r) for r in rks], refs)
            tags = dict(dataset_tags(mrs[wd], sspecs[ws]), alg=out.label.split("(")[0], env=ctx.env, label=out.label,
                        second_inputs=bool(wd or ws))
            made.append({"cons": out.cons, "rks": rks, "refs": refs, "computed": False, "label": out.label,
                         "tags": tags, "history": [], "no": len(made)})
            if out.picks:
                ctx.schedules.add(digest([out.label, out.picks]))
            continue
        # ---- a read of one of the consensuses made so far ---------------------------------------------------------
        if not made:
            continue
        c = made[op["t"] % len(made)]
        cons, rd = c["cons"], op["what"]
        c["history"].append(rd)
        ctx.event("read", c["no"], rd)
        if rd == "features":
            ok, feats = call(lambda: cons.features)
            if not ok or ConsensusFeature.KEMENY_SCORE not in feats:
                ctx.violate("C04/absent-or-negative", {"read": "features", "value": "no KEMENY_SCORE entry"},
                            "a score or the -1 sentinel", c["tags"], c["label"])
                ctx.violations[-1]["case_override"] = repro
                continue
            v = feats[ConsensusFeature.KEMENY_SCORE]
            if not c["computed"] and _is_real(v) and float(v) == -1.0:
                ctx.probe("sentinel_seen")  # documented "not computed yet"
                continue
            check(c, v, "features" + ("" if c["computed"] else " (supplied by the algorithm)"), not c["computed"], repro)
        elif rd == "kemeny_score":
            ok, v = call(lambda: cons.kemeny_score)
            c["computed"] = True
            if not ok:
                ctx.violate("C04/read-raised", f"kemeny_score raised {exc_label(v)}: {str(v)[:120]}", "a number",
                            c["tags"], c["label"])
                ctx.violations[-1]["case_override"] = repro
                continue
            check(c, v, "kemeny_score", False, repro)
        elif rd == "description":
            ok, d = call(cons.description)
            c["computed"] = True
            if not ok:
                ctx.violate("C04/read-raised", f"description() raised {exc_label(d)}: {str(d)[:120]}", "a text",
                            c["tags"], c["label"])
                ctx.violations[-1]["case_override"] = repro
                continue
            line = [ln for ln in d.split("\n") if ConsensusFeature.KEMENY_SCORE.value in ln]
            if line:
                txt = line[0].split(ConsensusFeature.KEMENY_SCORE.value, 1)[1].strip()
                try:
                    v = float(txt)
                except ValueError:
                    v = None
                check(c, v, "description()", False, repro)
        else:
            call(lambda: str(cons))
        ctx.state([c["label"], c["history"][-3:]])
