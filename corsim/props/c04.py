"""C04 - the Kemeny score a consensus reports is the true score of each returned ranking.

Simulator dimensions: the score is a lazily filled cache (-1 = not computed yet), so what a caller sees depends on
the *order of reads* - the run performs a read history chosen by the schedule stream; score provenance differs
by cplex environment (selector -> CPLEX class -> lazy path, or -> PuLP -> objective read back from the CBC peer's
solution file) and by RNG schedule (KwikSort-started BioConsert).
"""
import math

import numpy as np

from .. import gen, model
from ..lib import build_dataset, build_scheme, canon_ranking, jsonable_ranking, call, exc_label, ConsensusFeature
from ..seed import digest
from .common import Discard, run_alg, well_formed, dataset_tags

ID = "C04"
ENVS = ["absent", "present", "broken", "absent"]
RUNS = {"quick": 16000, "thorough": 200000}
RULE = ("case = (dataset, valid scheme, 3-5 algorithm calls each with RNG schedule, return_at_most_one flag and a read "
        "history over features[KEMENY_SCORE] / kemeny_score / description() / str()); distinct = distinct case digest; "
        "non-trivial = at least one reported score of a consensus over >= 2 elements was compared with the reference")
LEVEL_TEXT = ("seeded search over datasets x schemes x algorithm configurations x read histories x cplex environments; "
              "every reported number is compared (1e-6) with an independent reference scorer applied to every returned "
              "ranking")
ASSUMPTIONS = ["reference scorer model.ref_score is the double sum of the statement",
               "a features read before any score-computing read may show the documented -1 'not computed' sentinel"]
EXPECTED_PROBES = ["score_checked", "sentinel_seen", "supplied_score_checked", "lazy_score_checked"]
READS = ["features", "kemeny_score", "description", "str", "features", "kemeny_score"]


def gen_case(st, tier, env):
    w, k = st.workload, st.knobs
    ds = gen.gen_dataset(w, n_max=6 if k.random() < 0.8 else 8, m_max=6)
    scheme = gen.gen_scheme(w, dyadic=k.random() < 0.6)
    n_univ = len({e for r in ds["rankings"] for b in r for e in b})
    calls = []
    for _ in range(k.choice([3, 4, 5])):
        a = gen.gen_alg(w, env, heavy_ok=n_univ <= 6)
        reads = [st.schedule.choice(READS) for _ in range(st.schedule.randint(1, 5))]
        calls.append({"alg": a, "one": k.choice([True, False, None]), "sched": gen.gen_sched(st.schedule),
                      "reads": reads})
    return {"dataset": ds, "scheme": scheme, "calls": calls}


def nontrivial(probes):
    return probes.get("score_checked_n2", 0) > 0


def _is_real(v):
    return isinstance(v, (int, float, np.integer, np.floating)) and not isinstance(v, bool)


def run_case(case, ctx):
    mr = model.normalise(case["dataset"]["rankings"])
    B, T = case["scheme"]["B"], case["scheme"]["T"]
    tags = dataset_tags(mr, case["scheme"])
    ds = build_dataset(case["dataset"])
    sc = build_scheme(case["scheme"])
    ctx.event("world", model.canon(mr), B, T, ctx.env)
    for c in case["calls"]:
        try:
            out = run_alg(c["alg"], ds, sc, c["one"], c["sched"])
        except Discard:
            ctx.probe("discarded_stub_capacity")
            continue
        ctx.event("call", out.label, c["one"], out.brief(), out.picks)
        if out.kind != "returned":
            ctx.probe(out.kind)
            continue
        if well_formed(out.cons, mr, False):
            ctx.probe("malformed_skipped")  # cannot be scored; C03 reports it
            continue
        cons = out.cons
        rks = [canon_ranking(r) for r in cons.consensus_rankings]
        refs = [model.ref_score(r, mr, B, T) for r in rks]
        ctx.event("result", [jsonable_ranking(r) for r in rks], refs)
        t = dict(tags, alg=out.label.split("(")[0], env=ctx.env, label=out.label)
        repro = dict(case, calls=[dict(c, sched={"draws": out.picks, "fallback": "first", "seed": 0})])

        def check(v, how, supplied):
            ctx.probe("score_checked")
            if tags["n"] >= 2:
                ctx.probe("score_checked_n2")
            ctx.probe("supplied_score_checked" if supplied else "lazy_score_checked")
            problem = None
            if v is None:
                problem = "absent (None)"
            elif not _is_real(v):
                problem = f"not a number: {type(v).__name__}"
            elif math.isnan(float(v)):
                problem = "NaN"
            elif float(v) < -1e-6:  # rounding noise within the statement's own 1e-6 tolerance is not "negative"
                problem = f"negative: {float(v)}"
            else:
                worst = max(abs(float(v) - r) for r in refs)
                if worst > 1e-6:
                    problem = f"reported {float(v)!r}"
            if problem:
                ctx.violate("C04/wrong-score" if problem.startswith("reported") else "C04/absent-or-negative",
                            {"read": how, "value": problem, "rankings": [jsonable_ranking(r) for r in rks]},
                            {"reference_scores": refs}, dict(t, read=how, supplied=supplied), out.label)
                ctx.violations[-1]["case_override"] = repro

        computed = False
        history = []
        for rd in c["reads"]:
            history.append(rd)
            if rd == "features":
                ok, feats = call(lambda: cons.features)
                if not ok or ConsensusFeature.KEMENY_SCORE not in feats:
                    ctx.violate("C04/absent-or-negative", {"read": "features", "value": "no KEMENY_SCORE entry"},
                                "a score or the -1 sentinel", t, out.label)
                    ctx.violations[-1]["case_override"] = repro
                    continue
                v = feats[ConsensusFeature.KEMENY_SCORE]
                if not computed and _is_real(v) and float(v) == -1.0:
                    ctx.probe("sentinel_seen")  # documented "not computed yet"
                    continue
                check(v, "features" + ("" if computed else " (supplied by the algorithm)"), not computed)
            elif rd == "kemeny_score":
                ok, v = call(lambda: cons.kemeny_score)
                computed = True
                if not ok:
                    ctx.violate("C04/read-raised", f"kemeny_score raised {exc_label(v)}: {str(v)[:120]}", "a number", t,
                                out.label)
                    ctx.violations[-1]["case_override"] = repro
                    continue
                check(v, "kemeny_score", False)
            elif rd == "description":
                ok, d = call(cons.description)
                computed = True
                if not ok:
                    ctx.violate("C04/read-raised", f"description() raised {exc_label(d)}: {str(d)[:120]}", "a text", t,
                                out.label)
                    ctx.violations[-1]["case_override"] = repro
                    continue
                line = [ln for ln in d.split("\n") if ConsensusFeature.KEMENY_SCORE.value in ln]
                if line:
                    txt = line[0].split(ConsensusFeature.KEMENY_SCORE.value, 1)[1].strip()
                    try:
                        v = float(txt)
                    except ValueError:
                        v = None
                    check(v, "description()", False)
            else:
                call(lambda: str(cons))
        ctx.state([out.label, history])
        ctx.schedules.add(digest([out.label, history, out.picks]))
