"""C05 - the exact algorithm returns a global optimum, with or without CPLEX.

Simulator dimension: the cplex environment of the cell. absent = what this sandbox is; broken = an installed
package whose import raises ImportError; present = the stand-in peer that solves the 0-1 programme it is
handed. The free-solver path runs the real CBC binary. No solver failure is injected here: the statement
promises nothing about a dying solver.
Oracle: brute force over all rankings with ties (n <= 7, full minimiser set) / subset DP (n <= 9, value only).
"""
from .. import gen, model
from ..lib import build_dataset, build_scheme, canon_ranking, jsonable_ranking, exc_label
from .common import Discard, run_alg, well_formed, dataset_tags, apply_mutation
from ..lib import canon_rankings

ID = "C05"
ENVS = ["absent", "present", "broken", "present"]
RUNS = {"quick": 8000, "thorough": 80000}
RULE = ("case = (dataset, valid dyadic scheme) solved by every exact entry point available in the cell's cplex "
        "environment; distinct = distinct case digest; non-trivial = at least one ILP was really built and solved "
        "(a component that cannot be all-tied reached CBC or the stand-in) and compared with the brute-force optimum")
LEVEL_TEXT = ("seeded search over datasets x schemes x cplex environments (import fault = the fault); every returned "
              "ranking is scored by the reference scorer and compared with an independent exact optimum; the full "
              "set of optima is compared with the brute-force minimiser set")
ASSUMPTIONS = ["brute-force / subset-DP optimiser and reference scorer (model.py)",
               "CBC is trusted to solve <= 108-variable 0-1 programmes (an error would surface as a violation here)",
               "CPLEX classes are judged against the stand-in peer; dyadic penalties make equality exact"]
EXPECTED_PROBES = ["ilp_solved_pulp", "ilp_solved_standin", "minimiser_set_checked", "pool_gt1", "fallback_checked",
                   "zero_objective"]
TOL = 1e-9


def gen_case(st, tier, env):
    w, k = st.workload, st.knobs
    fam = k.random()
    n_max = 5 if env == "present" else 6
    if fam < 0.08:
        n_max = 7 if env != "present" else 6
    if tier == "thorough" and env != "present" and k.random() < 0.04:
        n_max = 9  # value-only oracle (subset DP); the free solver handles 108 binaries
    cyc_share = 0.3 if env == "present" else 0.15  # the CPLEX classes only build an ILP on non-tieable components
    cyclic = fam < cyc_share
    if cyclic:
        ds = gen.gen_cyclic_blocks_dataset(w, sizes=w.choice([[3], [4], [3, 2], [3, 3], [4, 2], [3], [4]]),
                                           prefer_colliding=(env == "present" and k.random() < 0.5))
    elif fam < cyc_share + 0.2:
        ds = gen.gen_sparse_dataset(w, n_max=n_max)
    elif fam < cyc_share + 0.3:
        ds = gen.gen_dataset(w, n_max=n_max, m_max=6, complete=True)
    else:
        ds = gen.gen_dataset(w, n_max=n_max, m_max=6, n_min=2)
    scheme = gen.gen_scheme(w, dyadic=True)
    if cyclic and k.random() < 0.5:
        # on a majority cycle the interesting regime is a tie cost between a third and a half of an inversion
        scheme = gen.preset(k.choice(["pseudo", "unifying", "induced"]), k.choice([0.34, 0.375, 0.4, 0.42, 0.44, 0.5, 0.3]))
        scheme["family"] = "preset/cycle-band"
    if env != "present" and k.random() < 0.08:
        # near-equal penalties (differences 3e-4 .. 5e-4): only on the free-solver path, whose comparisons are all
        # strict; the CPLEX model builder has a documented 1e-3 precision threshold of its own (DESIGN.md, limits)
        for _ in range(20):
            scheme = gen.gen_scheme(w, dyadic=False)
            if scheme.get("family") == "near-equal":
                break
    if k.random() < 0.25 and scheme["B"][5] == scheme["T"][5]:
        scheme["B"][5] = scheme["T"][5] + 1.0  # favour the doubly-unranked asymmetry
        scheme["family"] += "/B5>T5"
    case = {"dataset": ds, "scheme": scheme}
    if k.random() < 0.2:
        case["touch_then_mutate"] = gen.gen_mutation(w)  # aggregate once, edit the Dataset in place, then solve
    return case


def nontrivial(probes):
    return probes.get("ilp_solved_pulp", 0) + probes.get("ilp_solved_standin", 0) > 0


def calls_for(env):
    base = [({"alg": "ExactAlgorithm", "optimize": True}, True),
            ({"alg": "ExactAlgorithm", "optimize": False}, True),
            ({"alg": "ExactAlgorithmPulp"}, None)]
    if env == "present":
        base += [({"alg": "ExactAlgorithmCplex", "optimize": True}, True),
                 ({"alg": "ExactAlgorithmCplex", "optimize": False}, True),
                 ({"alg": "ExactAlgorithmCplex", "optimize": False}, False),
                 ({"alg": "ExactAlgorithmCplexForPaperOptim1"}, True),
                 ({"alg": "ExactAlgorithm", "optimize": False}, False)]
    return base


def run_case(case, ctx):
    ds = build_dataset(case["dataset"])
    mr = model.normalise(case["dataset"]["rankings"])
    if case.get("touch_then_mutate"):
        warm = build_scheme(case["scheme"])
        for a0 in ({"alg": "CopelandMethod"}, {"alg": "BordaCount"}, {"alg": "KwikSortRandom"}):
            run_alg(a0, ds, warm, None, None)
        apply_mutation(ds, case["touch_then_mutate"])
        mr = canon_rankings(ds.rankings)
        ctx.probe("touched_then_mutated")
    elems = model.universe(mr)
    B, T = case["scheme"]["B"], case["scheme"]["T"]
    cost = model.ref_cost(mr, elems, B, T)
    opt, mins = model.optimum(cost, want_minimisers=True)
    tags = dataset_tags(mr, case["scheme"])
    sc = build_scheme(case["scheme"])
    ctx.event("world", model.canon(mr), B, T, ctx.env, opt)
    ctx.state([model.canon(mr), B, T])
    cplex_stats = None
    if ctx.env == "present":
        import cplex
        cplex_stats = cplex.STATS
    todo = [tuple(case["only"])] if case.get("only") else calls_for(ctx.env)
    for alg_spec, one in todo:
        solves0 = (cplex_stats["solves"] + cplex_stats["populates"]) if cplex_stats else 0
        zero0 = cplex_stats["zero_objective"] if cplex_stats else 0
        pool0 = cplex_stats["pool_gt1"] if cplex_stats else 0
        pulp_before = _pulp_calls()
        try:
            out = run_alg(alg_spec, ds, sc, one, None)
        except Discard:
            ctx.probe("discarded_stub_capacity")
            continue
        ctx.event("call", out.label, one, out.brief())
        t = dict(tags, alg=alg_spec["alg"], optimize=alg_spec.get("optimize"), env=ctx.env, one=one)
        only = dict(case, only=[alg_spec, one])
        if _pulp_calls() > pulp_before:
            ctx.probe("ilp_solved_pulp")
        if cplex_stats:
            if cplex_stats["solves"] + cplex_stats["populates"] > solves0:
                ctx.probe("ilp_solved_standin")
            if cplex_stats["zero_objective"] > zero0:
                ctx.probe("zero_objective")
            if cplex_stats["pool_gt1"] > pool0:
                ctx.probe("pool_gt1")
        if out.kind == "refused":
            ctx.probe("refused")
            # the only documented refusal: optimised model asked for all optima
            if not (alg_spec.get("optimize", True) and one is False and alg_spec["alg"] != "ExactAlgorithmPulp"):
                ctx.violate("C05/refused", exc_label(out.exc), "an optimal consensus", t, out.label)
            continue
        if out.kind == "crashed":
            ctx.probe("crashed_" + exc_label(out.exc))
            if alg_spec["alg"] == "ExactAlgorithm" and ctx.env != "present":
                ctx.probe("fallback_checked")
                ctx.violate("C05/selector-fallback", f"{exc_label(out.exc)}: {str(out.exc)[:160]}",
                            "without CPLEX the selector answers through the free solver", t, out.label)
            else:
                ctx.violate("C05/crashed", f"{exc_label(out.exc)}: {str(out.exc)[:160]}", "an optimal consensus", t,
                            out.label)
            ctx.violations[-1]["case_override"] = only
            continue
        if alg_spec["alg"] == "ExactAlgorithm" and ctx.env != "present":
            ctx.probe("fallback_checked")
        wf = well_formed(out.cons, mr, one is True)
        if wf:
            ctx.probe("malformed")  # C03's business; cannot be scored
            ctx.violate("C05/malformed", wf[0]["observed"], wf[0]["expected"], dict(t, what=wf[0]["what"]), out.label)
            ctx.violations[-1]["case_override"] = only
            continue
        got = [canon_ranking(r) for r in out.cons.consensus_rankings]
        ctx.event("result", sorted(jsonable_ranking(r) for r in got) if len(got) > 1 else [jsonable_ranking(r) for r in got])
        for r in got:
            s = model.ref_score(r, mr, B, T)
            ctx.probe("rankings_scored")
            if s > opt + TOL:
                ctx.violate("C05/not-optimal", {"ranking": jsonable_ranking(r), "score": s},
                            {"optimum": opt, "one_minimiser": jsonable_ranking(model.vec_to_ranking(mins[0], elems))
                             if mins else None}, t, out.label)
                ctx.violations[-1]["case_override"] = only
            elif s < opt - TOL:
                raise AssertionError("oracle bug: a ranking scored below the brute-force optimum")
        if alg_spec["alg"] == "ExactAlgorithmCplex" and not alg_spec.get("optimize", True) and one is False \
                and mins is not None:
            ctx.probe("minimiser_set_checked")
            want = {model.vec_to_ranking(v, elems) for v in mins}
            have = set(got)
            if len(got) != len(have):
                ctx.violate("C05/all-optima", {"duplicates": len(got) - len(have)}, "each optimum once", t, out.label)
                ctx.violations[-1]["case_override"] = only
            if have != want:
                ctx.violate("C05/all-optima",
                            {"returned": len(have), "missing": [jsonable_ranking(r) for r in list(want - have)[:3]],
                             "extra": [jsonable_ranking(r) for r in list(have - want)[:3]]},
                            {"minimisers": len(want)}, t, out.label)
                ctx.violations[-1]["case_override"] = only
            if len(want) > 1:
                ctx.probe("several_optima")


_pulp_counter = {"n": 0, "installed": False}


def _pulp_calls():
    """Counts real CBC invocations (observer only: delegates unchanged)."""
    if not _pulp_counter["installed"]:
        import pulp
        orig = pulp.PULP_CBC_CMD.actualSolve

        def counted(self, lp, *a, **k):
            _pulp_counter["n"] += 1
            return orig(self, lp, *a, **k)
        pulp.PULP_CBC_CMD.actualSolve = counted
        _pulp_counter["installed"] = True
    return _pulp_counter["n"]
