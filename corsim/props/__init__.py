"""One module per claimed property. Each exposes:
ID, ENVS, RULE, RUNS = {"quick": n, "thorough": n}, gen_case(streams, tier, env) -> case,
run_case(case, ctx) -> None, nontrivial(probes) -> bool, LEVEL_TEXT, ASSUMPTIONS.
"""
