"""C08 - BioConsert returns a local optimum of the Kemeny score (narrow claim, see DESIGN.md section 4).

What the simulator adds: with KwikSort among the starting algorithms the start point - hence the local optimum
reached - depends on the pivot schedule; the RNG seam makes each such run a replayable point and the sweep policy
covers every start reachable on small universes. BioConsert() / BioCo() have no schedule and are plain workload.
Oracle: reference single-move neighbourhood scored by the reference cost table.
"""
from .. import gen, model
from ..lib import (build_dataset, build_scheme, canon_ranking, jsonable_ranking, uses_random, canon_rankings, call,
                   Element, alg_label, build_alg)
from ..seed import digest
from .common import Discard, run_alg, well_formed, dataset_tags, sweep

ID = "C08"
ENVS = ["absent"]
RUNS = {"quick": 64000, "thorough": 640000}
RULE = ("case = (dataset, valid scheme, BioConsert configurations each with an RNG schedule); distinct = distinct case "
        "digest; non-trivial = a returned ranking over >= 3 elements had its whole single-move neighbourhood rescored")
LEVEL_TEXT = ("seeded search over datasets x schemes x starting-algorithm configurations x pivot schedules; every "
              "single-element move of every returned ranking is rescored with the reference cost table")
ASSUMPTIONS = ["reference neighbourhood (model.neighbourhood) and reference cost table",
               "non-dyadic schemes are judged with 1e-6 slack on top of the 0.001 threshold"]
EXPECTED_PROBES = ["moves_rescored", "randomised_start", "multi_bucket_result", "mutated_in_place"]

CONFIGS = [{"alg": "BioConsert"}, {"alg": "BioCo"},
           {"alg": "BioConsert", "starters": [{"alg": "KwikSortRandom"}]},
           {"alg": "BioConsert", "starters": [{"alg": "KwikSortRandom"}, {"alg": "BordaCount"}]},
           {"alg": "BioConsert", "starters": [{"alg": "CopelandMethod"}]},
           {"alg": "BioConsert", "starters": [{"alg": "KwikSortRandom"}, {"alg": "KwikSortRandom"}]},
           {"alg": "BioConsert", "starters": [{"alg": "PickAPerm"}, {"alg": "CopelandMethod"}]}]


def gen_case(st, tier, env):
    w, k = st.workload, st.knobs
    ds = gen.gen_dataset(w, n_max=8, m_max=6, n_min=2)
    dy = k.random() < 0.75
    scheme = gen.gen_scheme(w, dyadic=dy)
    if k.random() < 0.06:
        scheme, dy = gen.gen_mixed_magnitude_scheme(w), True  # exact ints: 1 next to 10**3 / 10**6
    calls = []
    for _ in range(k.choice([2, 3, 4])):
        a = dict(w.choice(CONFIGS)) if k.random() < 0.8 else {"alg": "BioConsert", "starters": gen.gen_starters(w)}
        calls.append({"alg": a, "one": k.choice([False, False, True]), "sched": gen.gen_sched(st.schedule)})

    # history dimension: the algorithm instances are shared by all calls of the run and the Dataset object may be
    # edited in place between two calls (anything cached on an instance or on the dataset must follow)
    if k.random() < 0.3 and len(calls) >= 2:
        at = w.randrange(1, len(calls))
        calls.insert(at, {"mutate": w.choice(["remove_elements", "remove_empty", "remove_empty", "remove_rate"]),
                          "pick": [w.randrange(64)], "rate": w.choice([0.0, 0.3, 0.5])})
    n_univ = len({e for r in ds["rankings"] for b in r for e in b})
    return {"dataset": ds, "scheme": scheme, "calls": calls, "dyadic": dy,
            "sweep": tier == "thorough" and n_univ <= 5 and k.random() < 0.3}


def nontrivial(probes):
    return probes.get("neighbourhoods_n3", 0) > 0


def run_case(case, ctx):
    mr = model.normalise(case["dataset"]["rankings"])
    elems = model.universe(mr)
    B, T = case["scheme"]["B"], case["scheme"]["T"]
    cost = model.ref_cost(mr, elems, B, T)
    tags = dataset_tags(mr, case["scheme"])
    ds = build_dataset(case["dataset"])
    sc = build_scheme(case["scheme"])
    slack = 0.001 + (1e-9 if case.get("dyadic", True) else 1e-6)
    ctx.event("world", model.canon(mr), B, T)

    def judge(out, c):
        ctx.event("call", out.label, out.brief(), out.picks)
        if out.kind != "returned":
            ctx.probe(out.kind)
            return
        if well_formed(out.cons, mr, False):
            ctx.probe("malformed_skipped")
            return
        if out.picks:
            ctx.probe("randomised_start")
            ctx.schedules.add(digest([case["dataset"]["rankings"], out.label, out.picks]))
        for r in out.cons.consensus_rankings:
            cr = canon_ranking(r)
            ctx.state(jsonable_ranking(cr))
            base = model.score_from_cost(model.ranking_to_vec(cr, elems), cost)
            if len(elems) >= 3:
                ctx.probe("neighbourhoods_n3")
            if len(cr) > 1 and any(len(b) > 1 for b in cr):
                ctx.probe("multi_bucket_result")
            for e, nb in model.neighbourhood(cr):
                ctx.probe("moves_rescored")
                s = model.score_from_cost(model.ranking_to_vec(nb, elems), cost)
                if s < base - slack:
                    t = dict(tags, alg=out.label)
                    ctx.violate("C08/improvable", {"returned": jsonable_ranking(cr), "score": base, "moved": e,
                                                   "better": jsonable_ranking(nb), "better_score": s},
                                "no single-element move improves the score by more than 0.001", t, out.label)
                    ctx.violations[-1]["case_override"] = dict(
                        case, sweep=False, calls=[dict(c, sched={"draws": out.picks, "fallback": "first", "seed": 0})])
                    return

    instances = {}
    for c in case["calls"]:
        if "mutate" in c:
            univ = model.universe(mr)
            if c["mutate"] == "remove_elements" and len(univ) > 2:
                call(ds.remove_elements, {Element(univ[c["pick"][0] % len(univ)])})
            elif c["mutate"] == "remove_rate":
                call(ds.remove_elements_rate_presence_lower_than, c["rate"])
            else:
                call(ds.remove_empty_rankings)
            mr = canon_rankings(ds.rankings)
            elems = model.universe(mr)
            tags = dataset_tags(mr, case["scheme"])
            tags["after_mutation"] = c["mutate"]
            ctx.probe("mutated_in_place")
            ctx.event("mutate", c["mutate"], model.canon(mr))
            cost = model.ref_cost(mr, elems, B, T)
            continue
        lab = alg_label(c["alg"])
        if lab not in instances:
            okb, inst = call(build_alg, c["alg"])
            if not okb:
                continue
            instances[lab] = inst
        try:
            if case.get("sweep") and uses_random(c["alg"]):
                n = sweep(c["alg"], ds, sc, c["one"], lambda out, sp: judge(out, c), cap=150)
                ctx.probe("sweep_leaves", n)
                ctx.probe("schedule_trees_swept")
            else:
                judge(run_alg(c["alg"], ds, sc, c["one"], c["sched"], alg=instances[lab]), c)
        except Discard:
            ctx.probe("discarded_stub_capacity")
