"""Shared pieces of the algorithm-facing checks: running one algorithm call under the simulator, classifying the
outcome, structural well-formedness of a consensus against the dataset model."""
from typing import List, Optional

from .. import HarnessError, model, sched
from ..lib import (REFUSALS, Spy, build_alg, call, canon_ranking, exc_label, key_of, alg_label, jsonable_ranking,
                   Element, Ranking, Consensus)


class Discard(Exception):
    """The run asked a stub for more than it is built for; it is dropped and counted, never judged."""


class Outcome:
    def __init__(self, kind, value=None, exc=None, picks=None, spies=None, label=""):
        self.kind = kind          # "returned" | "refused" | "crashed"
        self.cons = value
        self.exc = exc
        self.picks = picks or []
        self.trace = []
        self.spies = spies or []
        self.label = label

    def brief(self):
        if self.kind == "returned":
            return "returned"
        return f"{self.kind}:{exc_label(self.exc)}"


def run_alg(alg_spec: dict, ds, sc, one: Optional[bool], sched_spec: Optional[dict], spy_nested: bool = False,
            alg=None, bench: Optional[bool] = None) -> Outcome:
    """One call of compute_consensus_rankings with every random draw decided by the given schedule."""
    spies: List[Spy] = []
    s = sched.Sched.from_spec(sched_spec)
    sched.set_current(s)
    try:
        if alg is None:
            ok, alg = call(build_alg, alg_spec, spies, spy_nested)
            if not ok:
                return _classify(False, alg, s, spies, alg_label(alg_spec) + " [constructor]")
        if bench is not None:
            # the fourth positional parameter of the public signature (what bench_time_consensus passes)
            ok, res = call(alg.compute_consensus_rankings, ds, sc, True if one is None else one, bench)
        elif one is None:
            ok, res = call(alg.compute_consensus_rankings, ds, sc)
        else:
            ok, res = call(alg.compute_consensus_rankings, ds, sc, one)
    finally:
        sched.set_current(None)
    return _classify(ok, res, s, spies, alg_label(alg_spec))


def _classify(ok, res, s, spies, label) -> Outcome:
    if ok:
        out = Outcome("returned", res, None, s.picks(), spies, label)
    elif type(res).__name__ == "StubCapacity":
        raise Discard(str(res))
    elif isinstance(res, REFUSALS):
        out = Outcome("refused", None, res, s.picks(), spies, label)
    else:
        out = Outcome("crashed", None, res, s.picks(), spies, label)
    out.trace = list(s.trace)
    return out


def well_formed(cons, mr: List[model.MRanking], one: Optional[bool]) -> List[dict]:
    """C03's structural oracle. Returns a list of {what, observed, expected}."""
    bad = []
    univ = model.universe(mr)
    uset = set(univ)
    want_int = all(isinstance(e, int) for e in univ)
    if not isinstance(cons, Consensus):
        return [{"what": "type", "observed": type(cons).__name__, "expected": "Consensus"}]
    rks = cons.consensus_rankings
    if not isinstance(rks, list) or len(rks) == 0:
        return [{"what": "count", "observed": f"{len(rks) if isinstance(rks, list) else type(rks).__name__}",
                 "expected": "at least one consensus ranking"}]
    if one and len(rks) != 1:
        bad.append({"what": "count", "observed": len(rks), "expected": "exactly one ranking (at most one requested)"})
    for i, r in enumerate(rks):
        if not isinstance(r, Ranking):
            bad.append({"what": "type", "observed": type(r).__name__, "expected": "Ranking"})
            continue
        seen = {}
        for j, b in enumerate(r.buckets):
            if not isinstance(b, (set, frozenset)):
                bad.append({"what": "bucket-type", "observed": type(b).__name__, "expected": "set"})
                continue
            if len(b) == 0:
                bad.append({"what": "empty-bucket", "observed": {"ranking": i, "bucket": j,
                                                                 "value": jsonable_ranking(canon_ranking(r))},
                            "expected": "non-empty buckets"})
            for e in b:
                if not isinstance(e, Element):
                    bad.append({"what": "member-type", "observed": repr(e), "expected": "Element"})
                    continue
                k = key_of(e)
                if (e.type is int) != want_int or isinstance(k, int) != want_int:
                    bad.append({"what": "element-type", "observed": f"{k!r}:{e.type.__name__}",
                                "expected": "int" if want_int else "str"})
                if k in seen:
                    bad.append({"what": "duplicate", "observed": {"element": k, "ranking": i, "buckets": [seen[k], j]},
                                "expected": "pairwise disjoint buckets"})
                seen[k] = j
        got = set(seen)
        if got != uset:
            bad.append({"what": "universe",
                        "observed": {"ranking": i, "missing": sorted(uset - got, key=model.sort_key),
                                     "foreign": sorted(got - uset, key=model.sort_key)},
                        "expected": "union of buckets == elements of the dataset"})
    return bad


def dataset_tags(mr, scheme: dict) -> dict:
    B, T = scheme["B"], scheme["T"]
    return {"complete": model.is_complete(mr), "ties": not model.without_ties(mr), "n": len(model.universe(mr)),
            "m": len(mr), "b5_ne_t5": B[5] != T[5], "has_empty_ranking": any(len(r) == 0 for r in mr)}


def sweep(alg_spec: dict, ds, sc, one, visit, cap: int = 300, spy_nested: bool = False) -> int:
    """Depth-first walk of the whole RNG decision tree of one call (replay a prefix, take the next branch)."""
    prefix, leaves = [], 0
    while True:
        spec = {"draws": prefix, "fallback": "first", "seed": 0}
        out = run_alg(alg_spec, ds, sc, one, spec, spy_nested)
        visit(out, spec)
        leaves += 1
        # recover arities from a fresh replay of the same prefix is not needed: Outcome carries picks only,
        # so re-run the scheduler bookkeeping here
        tr = out.trace
        j = len(tr) - 1
        while j >= 0 and tr[j][2] == tr[j][1] - 1:
            j -= 1
        if j < 0 or leaves >= cap:
            return leaves
        prefix = [t[2] for t in tr[:j]] + [tr[j][2] + 1]


def apply_mutation(ds, mut: dict) -> None:
    """Edit the Dataset in place (refusals are swallowed: C16 judges the mutators themselves)."""
    from ..lib import canon_rankings
    univ = model.universe(canon_rankings(ds.rankings))
    if mut["mutate"] == "remove_elements":
        if len(univ) > 2:
            call(ds.remove_elements, {Element(univ[mut["pick"][0] % len(univ)])})
    elif mut["mutate"] == "remove_rate":
        call(ds.remove_elements_rate_presence_lower_than, mut["rate"])
    else:
        call(ds.remove_empty_rankings)
