"""C18 - rankings and datasets survive a round trip through text and files; parser totality.

Simulator dimensions: a simulated filesystem under corankco.utils / corankco.ranking with fault injection inside
the write (crash at an arbitrary character, ENOSPC, silently lost write, flipped stored character, duplicated /
lost line) and a deterministic step meter for bounded liveness of the hand-written scanner.
Clauses: acknowledged write => readable and equal; whatever survives a fault is "any other text": parsed or
refused with ValueError, nothing else, within 200 + 60*len(text) traced line events.
"""
from .. import gen, model
from ..lib import (build_dataset, build_rankings, call, canon_ranking, canon_rankings, exc_label, jsonable_ranking,
                   Ranking, Dataset)
from ..simfs import SimFS, SimCrash
from ..stepmeter import StepMeter, StepBudgetExceeded
from ..seed import digest

import corankco.utils as U

ID = "C18"
ENVS = ["absent"]
RUNS = {"quick": 64000, "thorough": 640000}
RULE = ("case = (2-4 ranking<->text round trips in brace/bracket notation with whitespace and name prefix, one dataset "
        "write/read round trip on the simulated filesystem with at most one injected fault, 4-10 fuzz texts over the "
        "format's alphabet); distinct = distinct case digest; non-trivial = a fault fired inside the write or a "
        "non-empty dataset made the full round trip")
LEVEL_TEXT = ("seeded search over rankings/datasets x textual layouts x fault kinds and offsets (uniform over the byte "
              "length with extra mass on token and line boundaries); round-trip equality against the dataset model, "
              "parser totality and a step budget on everything that survives a fault")
ASSUMPTIONS = ["SimFS models a POSIX file as a character sequence; a crash keeps an arbitrary prefix",
               "element alphabet of the statement: non-negative ints; non-empty strings without []{},: or whitespace "
               "that are not digit-only",
               "an injected read error (EIO) is outside the statement and only recorded as a probe"]
EXPECTED_PROBES = ["string_roundtrip_ok", "file_roundtrip_ok", "folder_roundtrip_ok", "parser_total_calls", "valueerror_seen",
                   "torn_file_parsed"]
STATES_MEASURE = "distinct (fault kind, offset class, parser outcome class) triples"
FUZZ_ALPHABET = "[]{},:% \t\n0123456789abcz"
STR_ELEMS = ["a", "b", "c", "dd", "e1", "x_y", "Bob", "k9", "q", "zz", "a-b", "m.n", "7up", "é",
             "a_rather_long_element_name_of_more_than_forty_characters", "ENSG00000139618_BRCA2_homo_sapiens_chr13",
             "x" * 64, "'a'", '"x"', "rock'n'roll", "x'", "'", "a'b\"c"]  # quote characters are not delimiters


def _gen_ranking_items(w, kind):
    n = w.randint(0, 6)
    if kind == "int":
        pool = w.sample([0, 1, 2, 3, 7, 10, 11, 42, 100, 2024, 99999, 2 ** 53 + 1, 2 ** 63 - 1, 10 ** 18 + 7,
                         18446744073709551557, 2 ** 53 + 3], n)
    else:
        pool = w.sample(STR_ELEMS, n)
    return gen.gen_ranking(w, pool, 0.0, w.choice([0.0, 0.3, 0.6]), True) if pool else []


def _render(w, buckets, notation, messy=False):
    """The two notations of the statement, laid out like the library's own rendering (", " separators). `messy`
    adds arbitrary inner whitespace - used for fuzz texts only, where nothing but totality is demanded."""
    o, c = ("{", "}") if notation == "brace" else ("[", "]")
    sp = (lambda: w.choice(["", "", " ", "  ", "\t"])) if messy else (lambda: "")
    sep = "," + (sp() if messy else " ")
    parts = []
    for b in buckets:
        parts.append(o + sp() + sep.join(str(e) + sp() for e in b) + c)
    return "[" + sp() + sep.join(p + sp() for p in parts) + "]"


def gen_case(st, tier, env):
    w, k, f = st.workload, st.knobs, st.faults
    strings = []
    for _ in range(k.choice([2, 3, 4])):
        kind = k.choice(["int", "str"])
        items = _gen_ranking_items(w, kind)
        how = k.choice(["library_str", "brace", "bracket"])
        text = None if how == "library_str" else _render(w, items, how)
        strings.append({"kind": kind, "ranking": items, "how": how, "text": text,
                        "lead": w.choice(["", "", " ", "\t ", "\n"]), "trail": w.choice(["", "", " ", "\n", " \t"]),
                        "name": w.choice([None, None, "r1", "ranking 2", "x"])})
    kind = k.choice(["int", "str"])
    ds = gen.gen_dataset(w, n_max=6, m_max=5, kinds=(kind,), file_safe=True, allow_empty=k.random() < 0.25)
    fault = None
    if f.random() < 0.65:
        fk = f.choice(["crash_at", "crash_at", "enospc_at", "lost_write", "flip", "dup_line", "drop_line",
                       "eio_on_read"])
        fault = {"kind": fk, "frac": f.random(), "boundary": f.random() < 0.4, "i": f.randrange(64),
                 "j": f.randrange(12), "c": f.choice(list("[]{}, 0a\n"))}
    texts = []
    for _ in range(k.choice([4, 6, 10])):
        if w.random() < 0.5:
            n = w.randint(0, 24)
            texts.append("".join(w.choice(FUZZ_ALPHABET) for _ in range(n)))
        else:
            # mutate a well-formed text
            base = _render(w, _gen_ranking_items(w, w.choice(["int", "str"])), w.choice(["brace", "bracket"]),
                           messy=w.random() < 0.5)
            ops = w.randint(1, 3)
            for _ in range(ops):
                if not base:
                    break
                i = w.randrange(len(base))
                r = w.random()
                if r < 0.4:
                    base = base[:i] + base[i + 1:]
                elif r < 0.8:
                    base = base[:i] + w.choice(FUZZ_ALPHABET) + base[i:]
                else:
                    base = base[:i] + w.choice(FUZZ_ALPHABET) + base[i + 1:]
            texts.append(base)
    case = {"strings": strings, "file": {"dataset": ds, "path": k.choice(["out.txt", "/sim/data/d1", "sub.rankings", "./out.txt", "../data/d2"]),
                                         "fault": fault}, "texts": texts}
    if k.random() < 0.3:
        kind2 = k.choice(["int", "str"])
        case["folder"] = {"datasets": [gen.gen_dataset(w, n_max=5, m_max=4, kinds=(kind2,), file_safe=True,
                                                       allow_empty=False) for _ in range(k.choice([1, 2, 3]))],
                          "names": w.sample(["b_ds", "a_ds", "ds10", "ds2", "Z", "data.txt"], 3),
                          "trailing_sep": k.random() < 0.5}
    return case


def nontrivial(probes):
    return probes.get("fault_fired_in_write", 0) + probes.get("file_roundtrip_ok", 0) > 0


PARSERS = [("parse_str", lambda t: U.parse_ranking_with_ties_of_str(t)),
           ("parse_int", lambda t: U.parse_ranking_with_ties_of_int(t)),
           ("from_string", lambda t: Ranking.from_string(t))]


def _total(ctx, name, fn, text, where, repro):
    """Totality + bounded liveness: returns the outcome class."""
    budget = 200 + 60 * len(text)
    ctx.probe("parser_total_calls")
    try:
        with StepMeter(budget) as sm:
            ok, res = call(fn, text)
    except StepBudgetExceeded:
        ctx.violate("C18/step-budget", {"parser": name, "text": text[:200], "budget": budget},
                    "the scanner terminates within 200 + 60*len(text) line events", {"parser": name}, where)
        ctx.violations[-1]["case_override"] = repro
        return "hang"
    if len(text) > 0:
        per = sm.steps * 10 // max(len(text), 1)
        ctx.probes["max_steps_per_10_chars"] = max(ctx.probes.get("max_steps_per_10_chars", 0), per)
    if ok:
        return "parsed"
    if isinstance(res, ValueError):
        ctx.probe("valueerror_seen")
        return "ValueError"
    ctx.violate("C18/parser-failure-mode", {"parser": name, "text": text[:200],
                                            "raised": f"{exc_label(res)}: {str(res)[:120]}"},
                "parsed, or refused with ValueError", {"parser": name, "exc": exc_label(res)}, where)
    ctx.violations[-1]["case_override"] = repro
    return exc_label(res)


def run_case(case, ctx):
    # ---- A. ranking <-> text -------------------------------------------------------------------------------
    for sp in case.get("strings", []):
        items = sp["ranking"]
        okb, r = call(Ranking, [set(b) for b in items])
        if not okb:
            continue
        want = canon_ranking(r)
        text = str(r) if sp["how"] == "library_str" or sp.get("text") is None else sp["text"]
        full = sp["lead"] + ((sp["name"] + ":") if sp["name"] else "") + text + sp["trail"]
        repro = {"strings": [sp], "texts": []}
        ok, back = call(Ranking.from_string, full)
        ctx.event("string", full, "ok" if ok else exc_label(back))
        t = {"how": sp["how"], "kind": sp["kind"], "named": bool(sp["name"])}
        if not ok:
            ctx.violate("C18/string-roundtrip", {"text": full, "raised": f"{exc_label(back)}: {str(back)[:120]}"},
                        jsonable_ranking(want), t, "Ranking.from_string")
            ctx.violations[-1]["case_override"] = repro
            continue
        got = canon_ranking(back)
        if got != want or not (back == r):
            ctx.violate("C18/string-roundtrip", {"text": full, "parsed": jsonable_ranking(got),
                                                 "library_eq": bool(back == r)}, jsonable_ranking(want), t,
                        "Ranking.from_string")
            ctx.violations[-1]["case_override"] = repro
        else:
            ctx.probe("string_roundtrip_ok")

    # ---- B. dataset -> file -> dataset, with at most one fault inside the write ---------------------------------
    fpart = case.get("file")
    if fpart:
        _file_part(fpart, case, ctx)

    # ---- B'. several datasets -> folder -> datasets (fault-free) ------------------------------------------------------
    fo = case.get("folder")
    if fo:
        _folder_part(fo, ctx)

    # ---- C. fuzz texts: totality ---------------------------------------------------------------------------------
    for text in case.get("texts", []):
        repro = {"strings": [], "texts": [text]}
        for name, fn in PARSERS:
            cls = _total(ctx, name, fn, text, "fuzz", repro)
            ctx.state(["fuzz", name, cls])
        ctx.event("fuzz", text)


def _folder_part(fo, ctx):
    fs = SimFS()
    fs.install()
    try:
        want = {}
        for spec, name in zip(fo["datasets"], fo["names"]):
            okd, ds = call(build_dataset, spec)
            if not okd:
                continue
            okw, _ = call(ds.write, "/sim/data/" + name)
            if okw:
                want[name] = canon_rankings(ds.rankings)
        if not want:
            return
        okr, got = call(Dataset.get_datasets_from_folder, "/sim/data" + ("/" if fo.get("trailing_sep") else ""))
        repro = {"strings": [], "texts": [], "folder": fo}
        if not okr:
            ctx.violate("C18/folder-roundtrip", f"{exc_label(got)}: {str(got)[:120]}", sorted(want), {}, "folder")
            ctx.violations[-1]["case_override"] = repro
            return
        names = [d.name for d in got]
        if names != sorted(want):
            ctx.violate("C18/folder-roundtrip", {"names": names}, {"names": sorted(want)}, {}, "folder")
            ctx.violations[-1]["case_override"] = repro
            return
        for d in got:
            if model.multiset(canon_rankings(d.rankings)) != model.multiset(want[d.name]):
                ctx.violate("C18/folder-roundtrip", {"name": d.name, "read": model.canon(canon_rankings(d.rankings))},
                            model.canon(want[d.name]), {}, "folder")
                ctx.violations[-1]["case_override"] = repro
                return
        ctx.probe("folder_roundtrip_ok")
        ctx.event("folder", names)
    finally:
        fs.uninstall()


def _file_part(fpart, case, ctx):
    spec = fpart["dataset"]
    okd, ds = call(build_dataset, spec)
    if not okd:
        return
    want = canon_rankings(ds.rankings)
    expected_text = "".join(str(r.buckets) + "\n" for r in ds.rankings)
    fault = None
    if fpart.get("fault"):
        f = fpart["fault"]
        n = max(len(expected_text), 1)
        if f["kind"] in ("crash_at", "enospc_at"):
            k = int(f["frac"] * n)
            if f.get("boundary"):
                # snap to the next token / line boundary: faults inside in-flight state
                marks = [i for i, ch in enumerate(expected_text) if ch in "{},\n"] or [0]
                k = min(marks, key=lambda m: abs(m - k)) + (f["i"] % 2)
            fault = {"kind": f["kind"], "k": max(0, min(k, n - 1))}
        elif f["kind"] == "lost_write":
            fault = {"kind": "lost_write", "i": f["i"] % max(2 * len(want), 1), "j": f["j"]}
        elif f["kind"] == "flip":
            fault = {"kind": "flip", "i": int(f["frac"] * n), "c": f["c"]}
        elif f["kind"] in ("dup_line", "drop_line"):
            fault = {"kind": f["kind"], "i": f["i"]}
        else:
            fault = {"kind": "eio_on_read"}
    fs = SimFS(fault, on_fire=ctx.fault)
    path = fpart["path"]
    repro = {"strings": [], "texts": [], "file": fpart}
    fs.install()
    try:
        acknowledged, crashed, wexc = False, False, None
        try:
            okw, res = call(ds.write, path)
            acknowledged = okw
            wexc = None if okw else res
        except SimCrash:
            crashed = True
        ctx.event("write", path, "ack" if acknowledged else ("crash" if crashed else exc_label(wexc)),
                  dict(fs.fired))
        in_write = any(fs.fired.get(kf) for kf in ("crash_at", "enospc_at", "lost_write"))
        if in_write:
            ctx.probe("fault_fired_in_write")
        silent_loss = any(fs.fired.get(kf) for kf in ("lost_write", "flip", "dup_line", "drop_line"))
        kind = fault["kind"] if fault else "none"
        t = {"fault": kind, "fired": sorted(fs.fired), "has_empty_ranking": any(len(r) == 0 for r in want)}
        if not acknowledged and not crashed and not isinstance(wexc, OSError):
            ctx.violate("C18/write-raised", f"{exc_label(wexc)}: {str(wexc)[:120]}", "write returns (or OSError from "
                        "the device)", t, "Dataset.write")
            ctx.violations[-1]["case_override"] = repro
        stored = fs.files.get(fs.norm(path))
        # acknowledged => readable and equal ------------------------------------------------------------------
        if acknowledged and not silent_loss and not fs.fired.get("eio_on_read"):
            if stored is None:
                ctx.violate("C18/file-roundtrip", "no file after an acknowledged write", "a file", t, "Dataset.write")
                ctx.violations[-1]["case_override"] = repro
            elif fault and fault["kind"] == "eio_on_read":
                okr, back = call(Dataset.from_file, path)
                ctx.probe("eio_surface_" + ("returned" if okr else exc_label(back)))  # informational only
            else:
                okr, back = call(Dataset.from_file, path)
                if not okr:
                    ctx.violate("C18/file-roundtrip", {"file": stored[:300],
                                                       "read_raised": f"{exc_label(back)}: {str(back)[:120]}"},
                                model.canon(want), t, "Dataset.from_file")
                    ctx.violations[-1]["case_override"] = repro
                else:
                    got = canon_rankings(back.rankings)
                    if model.multiset(got) != model.multiset(want):
                        ctx.violate("C18/file-roundtrip", {"file": stored[:300], "read": model.canon(got)},
                                    model.canon(want), t, "Dataset.from_file")
                        ctx.violations[-1]["case_override"] = repro
                    else:
                        ctx.probe("file_roundtrip_ok")
                        if got != want:
                            ctx.probe("order_changed")
        # whatever is on disk now is "any other text": totality + bounded liveness ---------------------------------
        if stored is not None and (fs.fired or not acknowledged):
            if not (fault and fault["kind"] == "eio_on_read"):
                offset_class = "none"
                if fault and "k" in fault:
                    ch = expected_text[fault["k"]] if fault["k"] < len(expected_text) else ""
                    offset_class = {"{": "open", "}": "close", ",": "comma", "\n": "eol", " ": "space"}.get(ch, "token")
                cls = _total(ctx, "get_rankings_from_file", lambda _t: U.get_rankings_from_file(path), stored,
                             "torn-file", repro)
                ctx.state([kind, offset_class, cls])
                if cls == "parsed":
                    ctx.probe("torn_file_parsed")
                for line in stored.split("\n")[:8]:
                    for name, fn in PARSERS:
                        c2 = _total(ctx, name, fn, line, "torn-line", repro)
                        ctx.state([kind, name, c2])
                c3 = _total(ctx, "Ranking.from_file", lambda _t: Ranking.from_file(path), stored, "torn-file", repro)
                ctx.state([kind, "Ranking.from_file", c3])
    finally:
        fs.uninstall()
