"""C03 - every algorithm returns a well-formed consensus over exactly the universe.

Simulator dimensions: RNG schedule (KwikSort pivots, standalone / as BioConsert starter / as ParCons auxiliary),
the cplex environment of the cell (absent / broken / stand-in present), hash seed and insertion orders (they
decide element ids). Oracle: structural well-formedness against the dataset model.
"""
from .. import gen, model
from ..lib import (build_dataset, build_scheme, uses_random, alg_label, jsonable_ranking, canon_ranking,
                   canon_rankings, call, Element, build_alg)
from ..seed import digest
from .common import Discard, run_alg, well_formed, dataset_tags, sweep

ID = "C03"
ENVS = ["absent", "present", "broken", "absent", "present"]
RUNS = {"quick": 16000, "thorough": 200000}
RULE = ("case = (dataset with insertion orders, valid scheme, 3-6 algorithm calls each with its own RNG schedule and "
        "return_at_most_one flag) executed in a cell (hash seed, cplex environment); distinct = distinct case digest; "
        "non-trivial = at least one call returned a consensus over a universe of >= 2 elements")
LEVEL_TEXT = ("seeded search over datasets x schemes x algorithm configurations x RNG schedules x cplex environments; "
              "every returned consensus is checked structurally against an independent dataset model; thorough tier "
              "sweeps the full pivot tree of randomised configurations on small universes")
ASSUMPTIONS = ["dataset model (model.normalise) encodes the typing rule of the statement",
               "the CPLEX classes are judged against the stand-in peer, not real CPLEX"]
EXPECTED_PROBES = ["returned", "refused", "ilp_pulp", "checked_rankings", "mutated_in_place"]


def gen_case(st, tier, env):
    w, k = st.workload, st.knobs
    big = k.random() < 0.25
    cyclic = k.random() < 0.12
    if cyclic:
        # several non-trivial components (and, for str names, a whole block of integer-like names)
        ds = gen.gen_cyclic_blocks_dataset(w, sizes=w.choice([[3], [3, 2], [3, 3], [4], [4, 2]]))
    else:
        ds = gen.gen_dataset(w, n_max=8 if big else 5, m_max=6)
    scheme = gen.gen_scheme(w, dyadic=k.random() < 0.7)
    n_univ = len({e for r in ds["rankings"] for b in r for e in b})
    calls = []
    for _ in range(k.choice([3, 4, 5, 6])):
        a = gen.gen_alg(w, env, heavy_ok=n_univ <= 6)
        if cyclic and k.random() < 0.5:
            a = {"alg": "ParCons", "aux": dict(w.choice(gen.AUXILIARIES)), "bound": k.choice([0, 1, 2, 3])}
        calls.append({"alg": a, "one": k.choice([True, False, None]), "sched": gen.gen_sched(st.schedule),
                      "bench": k.choice([None, None, None, None, None, True])})
    do_sweep = tier == "thorough" and n_univ <= 5 and k.random() < 0.3
    # history dimension: the same Dataset object is edited in place between calls (a dataset obtained by removals is
    # a dataset like any other; whatever an earlier call cached must not leak into the next consensus)
    if k.random() < 0.3 and len(calls) >= 2:
        at = w.randrange(1, len(calls))
        calls.insert(at, {"mutate": w.choice(["remove_elements", "remove_elements", "remove_rate", "remove_empty"]),
                          "pick": [w.randrange(64) for _ in range(w.randint(1, 2))],
                          "rate": w.choice([0.3, 0.5, 0.75])})
    case = {"dataset": ds, "scheme": scheme, "calls": calls, "sweep": do_sweep}
    if k.random() < 0.3 and not do_sweep:
        # the same algorithm instances also serve a second dataset over another universe in between
        case["dataset2"] = gen.gen_dataset(w, n_max=5, m_max=4)
        for c in calls:
            if "alg" in c and w.random() < 0.4:
                c["ds"] = 1
    return case


def nontrivial(probes):
    return probes.get("returned_n2", 0) > 0


def run_case(case, ctx):
    mr = model.normalise(case["dataset"]["rankings"])
    tags = dataset_tags(mr, case["scheme"])
    ds = build_dataset(case["dataset"])
    sc = build_scheme(case["scheme"])
    ctx.event("world", model.canon(mr), case["scheme"]["B"], case["scheme"]["T"], ctx.env)
    ds2 = mr2 = tags2 = None
    if case.get("dataset2"):
        ds2 = build_dataset(case["dataset2"])
        mr2 = model.normalise(case["dataset2"]["rankings"])
        tags2 = dict(dataset_tags(mr2, case["scheme"]), second_dataset=True)
    instances = {}
    cur = {"mr": None, "tags": None}

    def judge(out, call_spec, sched_spec):
        # (mr and tags are rebound by in-place mutations below; judge reads the current bindings)
        ctx.event("call", out.label, call_spec["one"], out.brief(), out.picks)
        ctx.probe(out.kind)
        if out.kind != "returned":
            ctx.probe("exc_" + type(out.exc).__name__)
            if out.kind == "crashed":
                # not one of the documented refusals: the (dataset, scheme) was not declined, the call just failed
                mr_c = cur["mr"] if cur["mr"] is not None else mr
                tags_c = cur["tags"] if cur["tags"] is not None else tags
                ctx.violate("C03/no-consensus", f"{type(out.exc).__name__}: {str(out.exc)[:160]}",
                            "at least one consensus ranking (or a documented refusal)",
                            dict(tags_c, alg=out.label.split("(")[0], env=ctx.env, exc=type(out.exc).__name__), out.label)
                ctx.violations[-1]["case_override"] = dict(
                    case, sweep=False, calls=[dict(call_spec, sched={"draws": out.picks, "fallback": "first", "seed": 0})])
            return  # documented refusals: nothing promised
        ctx.probe("checked_rankings", len(getattr(out.cons, "consensus_rankings", []) or []))
        if tags["n"] >= 2:
            ctx.probe("returned_n2")
        if out.picks:
            ctx.schedules.add(digest([case["dataset"]["rankings"], out.label, out.picks]))
        one = call_spec["one"]
        mr_j = cur["mr"] if cur["mr"] is not None else mr
        tags_j = cur["tags"] if cur["tags"] is not None else tags
        # default of return_at_most_one_ranking differs per class; when not given, only ">= 1" is demanded
        for b in well_formed(out.cons, mr_j, one is True):
            t = dict(tags_j, alg=out.label.split("(")[0], env=ctx.env, what=b["what"])
            ctx.violate("C03/" + b["what"], b["observed"], b["expected"], t, out.label)
            ctx.violations[-1]["case_override"] = dict(
                case, sweep=False, calls=[dict(call_spec, sched={"draws": out.picks, "fallback": "first", "seed": 0})])
        try:
            res = [jsonable_ranking(canon_ranking(r)) for r in out.cons.consensus_rankings]
            ctx.state(res)
            ctx.event("result", res)
        except Exception:
            pass

    for c in case["calls"]:
        if "mutate" in c:
            univ = model.universe(mr)
            if c["mutate"] == "remove_elements" and len(univ) > 1:
                gone = {univ[i % len(univ)] for i in c["pick"]}
                if len(gone) < len(univ):
                    okm, _ = call(ds.remove_elements, {Element(x) for x in gone})
            elif c["mutate"] == "remove_rate":
                okm, _ = call(ds.remove_elements_rate_presence_lower_than, c["rate"])
            else:
                okm, _ = call(ds.remove_empty_rankings)
            # the dataset is now whatever its rankings contain (C16 judges the mutators themselves)
            mr = canon_rankings(ds.rankings)
            tags = dataset_tags(mr, case["scheme"])
            tags["after_mutation"] = c["mutate"]
            ctx.probe("mutated_in_place")
            ctx.event("mutate", c["mutate"], model.canon(mr))
            continue
        name = c["alg"]["alg"]
        if name in ("ExactAlgorithmPulp",) or (name in ("ExactAlgorithm", "ParCons") and ctx.env != "present"):
            ctx.probe("ilp_pulp")
        if name.startswith("ExactAlgorithmCplex") and ctx.env != "present":
            ctx.probe("cplex_class_without_cplex")
        try:
            if case.get("sweep") and uses_random(c["alg"]):
                n = sweep(c["alg"], ds, sc, c["one"], lambda out, sp: judge(out, c, sp), cap=200)
                ctx.probe("sweep_leaves", n)
                ctx.probe("schedule_trees_swept")
            else:
                lab = alg_label(c["alg"])
                if lab not in instances:
                    okb, inst = call(build_alg, c["alg"])
                    instances[lab] = inst if okb else None
                if instances[lab] is None:
                    continue
                if c.get("ds") and ds2 is not None:
                    cur["mr"], cur["tags"] = mr2, tags2
                    ctx.probe("second_dataset_call")
                    judge(run_alg(c["alg"], ds2, sc, c["one"], c["sched"], alg=instances[lab], bench=c.get("bench")),
                          c, c["sched"])
                    cur["mr"], cur["tags"] = None, None
                else:
                    judge(run_alg(c["alg"], ds, sc, c["one"], c["sched"], alg=instances[lab], bench=c.get("bench")),
                          c, c["sched"])
        except Discard:
            ctx.probe("discarded_stub_capacity")
