"""C14 - declared scheme applicability is truthful; complete data is never refused.

Simulator dimension: whether "never refused" can hold for ExactAlgorithm / ParCons is decided by the cell's cplex
environment (absent / broken / stand-in present), not by the arguments; nested configurations include
randomised starters/auxiliaries whose draws are scheduler decisions.
"""
from .. import gen, model
from ..lib import (build_dataset, build_scheme, build_alg, call, exc_label, alg_label, REFUSALS, jsonable_ranking)
from .. import sched
from .common import Discard, run_alg, well_formed, dataset_tags, apply_mutation
from ..lib import canon_rankings

ID = "C14"
ENVS = ["absent", "present", "broken", "absent", "present"]
RUNS = {"quick": 16000, "thorough": 160000}
RULE = ("case = (complete dataset, incomplete dataset, valid scheme incl. preset multiples, 3-6 algorithm configurations "
        "incl. nested ones, RNG schedules) in a cell (cplex environment); distinct = distinct case digest; non-trivial "
        "= at least one predicate answer was confronted with an actual run on an incomplete dataset")
LEVEL_TEXT = ("seeded search over configurations x schemes x cplex environments; the predicate's answer is confronted "
              "with the outcome of real runs on a complete and an incomplete dataset")
ASSUMPTIONS = ["well-formedness oracle of C03", "CPLEX classes judged against the stand-in peer"]
EXPECTED_PROBES = ["predicate_true_run", "predicate_false_refused", "complete_run_ok", "nested_config",
                   "refusal_iff_checked"]

NESTED = [
    {"alg": "BioConsert", "starters": [{"alg": "BordaCount"}]},
    {"alg": "BioConsert", "starters": [{"alg": "PickAPerm"}]},
    {"alg": "BioConsert", "starters": [{"alg": "CopelandMethod"}, {"alg": "KwikSortRandom"}]},
    {"alg": "BioConsert", "starters": [{"alg": "BioCo"}]},
    {"alg": "BioConsert", "starters": [{"alg": "BordaCount", "use_bucket_id": True}, {"alg": "PickAPerm"}]},
    {"alg": "BioCo"},
    {"alg": "ParCons", "bound": 0, "aux": {"alg": "BordaCount"}},
    {"alg": "ParCons", "aux": {"alg": "BioCo"}, "bound": 1},
    {"alg": "ParCons", "bound": 0, "aux": {"alg": "PickAPerm"}},
    {"alg": "ParCons", "bound": 0, "aux": {"alg": "KwikSortRandom"}},
    {"alg": "ParCons", "bound": 0, "aux": {"alg": "BioConsert", "starters": [{"alg": "BordaCount"}]}},
]
# configurations for which the statement demands "refuses exactly when declared not relevant"
IFF_FAMILY = ("BordaCount", "PickAPerm")


def _in_iff_family(spec) -> bool:
    if spec["alg"] in IFF_FAMILY:
        return True
    if spec["alg"] == "BioCo":
        return True
    if spec["alg"] == "BioConsert" and spec.get("starters"):
        # "BioConsert started from them": the predicate can only answer False because a Borda / PickAPerm (/ BioCo)
        # starter did, and that starter is run on the incomplete dataset and refuses
        return any(_in_iff_family(s) for s in spec["starters"])
    return False


def gen_case(st, tier, env):
    w, k = st.workload, st.knobs
    n = k.randint(2, 6)
    comp = gen.gen_dataset(w, n_max=n, n_min=n, m_max=5, complete=True)
    inc = gen.gen_dataset(w, n_max=n, n_min=2, m_max=5, complete=False)
    fam = k.random()
    if fam < 0.6:
        scheme = gen.preset(k.choice(gen.PRESETS), k.choice([1.0, 0.5, 0.5, 0.25]))
        mult = k.choice([1, 1, 2, 3, 0.5, 10, k.randint(1, 200), k.randint(1, 200), round(k.uniform(0.1, 10), 1),
                         round(k.uniform(0.1, 10), 2), 1 / 3, 1e-3, 1e6])
        scheme = gen.scale(scheme, mult)
        scheme["family"] = "preset*%s" % mult
    else:
        scheme = gen.gen_scheme(w, dyadic=True)
    configs = []
    for _ in range(k.choice([3, 4, 5, 6])):
        r = k.random()
        if r < 0.4:
            a = dict(w.choice(NESTED))
        elif r < 0.55:
            a = gen.gen_nested_bioconsert(w, depth=2)
            if k.random() < 0.3:
                a = {"alg": "ParCons", "aux": a, "bound": k.choice([0, 1, 2])}
        else:
            a = gen.gen_alg(w, env)
        configs.append({"alg": a, "sched": gen.gen_sched(st.schedule),
                        "bench": k.choice([None, None, None, None, True, False])})
    case = {"complete": comp, "incomplete": inc, "scheme": scheme, "configs": configs}
    if k.random() < 0.25:
        case["second_pass"] = gen.gen_mutation(w)  # edit the incomplete dataset in place, then ask everything again
    return case


def nontrivial(probes):
    return probes.get("predicate_true_run", 0) + probes.get("predicate_false_run", 0) > 0


def run_case(case, ctx):
    shared = {}
    _run_pass(case, ctx, None, shared)
    if case.get("second_pass"):
        _run_pass(case, ctx, case["second_pass"], shared)


def _run_pass(case, ctx, mutation, shared):
    mc = model.normalise(case["complete"]["rankings"])
    mi = model.normalise(case["incomplete"]["rankings"])
    dc = build_dataset(case["complete"])
    di = build_dataset(case["incomplete"])
    sc = build_scheme(case["scheme"])
    if mutation is not None:
        # first touch both datasets the way a user would (aggregate once), then edit in place: what the first
        # aggregation may have cached must not survive the edit
        warm = build_scheme(gen.preset("unifying", 1.0))
        for d0 in (dc, di):
            run_alg({"alg": "BordaCount"}, d0, warm, None, None)
            run_alg({"alg": "CopelandMethod"}, d0, warm, None, None)
            apply_mutation(d0, mutation)
        mc, mi = canon_rankings(dc.rankings), canon_rankings(di.rankings)
        ctx.probe("second_pass_after_mutation")
        ctx.event("mutate", mutation["mutate"], model.canon(mc), model.canon(mi))
    inc_is_incomplete = not model.is_complete(mi)
    comp_is_complete = model.is_complete(mc)
    ctx.event("world", model.canon(mc), model.canon(mi), case["scheme"]["B"], case["scheme"]["T"], ctx.env)
    for cf in case["configs"]:
        spec = cf["alg"]
        label = alg_label(spec)
        t = {"alg": spec["alg"], "label": label, "env": ctx.env, "scheme_family": case["scheme"].get("family")}
        repro = dict(case, configs=[cf])
        if spec.get("starters") or spec.get("aux"):
            ctx.probe("nested_config")
        # (a) the predicate answers a bool -------------------------------------------------------------
        s = sched.Sched.from_spec(cf["sched"])
        sched.set_current(s)
        try:
            if label in shared:
                okb, alg = True, shared[label]
            else:
                okb, alg = call(build_alg, spec)
                if okb:
                    shared[label] = alg
            if okb:
                okp, ans = call(alg.is_scoring_scheme_relevant_when_incomplete_rankings, sc)
        finally:
            sched.set_current(None)
        if not okb:
            ctx.violate("C14/constructor-raised", f"{exc_label(alg)}: {str(alg)[:160]}", "an algorithm instance", t,
                        label)
            ctx.violations[-1]["case_override"] = repro
            continue
        declared = None
        if not okp:
            ctx.event("predicate", label, "raised", exc_label(ans))
            ctx.violate("C14/predicate-raised", f"{exc_label(ans)}: {str(ans)[:160]}", "True or False", t, label)
            ctx.violations[-1]["case_override"] = repro
        elif not isinstance(ans, bool) and type(ans).__name__ != "bool_":
            ctx.violate("C14/predicate-not-bool", repr(ans)[:80], "True or False", t, label)
            ctx.violations[-1]["case_override"] = repro
        else:
            declared = bool(ans)
            ctx.event("predicate", label, declared)
        one = True if spec["alg"].startswith("Exact") else None
        # (c) complete data is never refused --------------------------------------------------------------
        if comp_is_complete:
            try:
                out = run_alg(spec, dc, sc, one, cf["sched"], alg=alg, bench=cf.get("bench"))
                ctx.event("complete-run", label, out.brief(), out.picks)
                if out.kind != "returned":
                    ctx.violate("C14/complete-refused", f"{out.kind}: {exc_label(out.exc)}: {str(out.exc)[:160]}",
                                "every algorithm accepts every valid scheme on complete datasets",
                                dict(t, exc=exc_label(out.exc)), label)
                    ctx.violations[-1]["case_override"] = repro
                else:
                    wf = well_formed(out.cons, mc, one is True)
                    if wf:
                        ctx.violate("C14/complete-malformed", wf[0]["observed"], wf[0]["expected"], t, label)
                        ctx.violations[-1]["case_override"] = repro
                    else:
                        ctx.probe("complete_run_ok")
            except Discard:
                ctx.probe("discarded_stub_capacity")
        # (b)+(d) incomplete data vs. the declaration -------------------------------------------------------
        if inc_is_incomplete and declared is not None:
            try:
                out = run_alg(spec, di, sc, one, cf["sched"], alg=alg, bench=cf.get("bench"))
            except Discard:
                ctx.probe("discarded_stub_capacity")
                continue
            ctx.event("incomplete-run", label, out.brief(), out.picks)
            if declared:
                ctx.probe("predicate_true_run")
                if out.kind != "returned":
                    ctx.violate("C14/declared-relevant-but-failed",
                                f"{out.kind}: {exc_label(out.exc)}: {str(out.exc)[:160]}",
                                "a well-formed consensus on every incomplete dataset",
                                dict(t, exc=exc_label(out.exc)), label)
                    ctx.violations[-1]["case_override"] = repro
                else:
                    wf = well_formed(out.cons, mi, one is True)
                    if wf:
                        ctx.violate("C14/declared-relevant-but-malformed", wf[0]["observed"], wf[0]["expected"], t,
                                    label)
                        ctx.violations[-1]["case_override"] = repro
            else:
                ctx.probe("predicate_false_run")
                if _in_iff_family(spec):
                    ctx.probe("refusal_iff_checked")
                    if out.kind == "refused":
                        ctx.probe("predicate_false_refused")
                    else:
                        ctx.violate("C14/declared-irrelevant-but-not-refused", out.brief(),
                                    "a documented refusal exactly when the scheme was declared not relevant", t, label)
                        ctx.violations[-1]["case_override"] = repro
            if declared and _in_iff_family(spec):
                ctx.probe("refusal_iff_checked")
