"""C17 - dataset equality means same multiset of rankings, nothing else.

Simulator dimension: the nondeterminism the statement names - hash randomisation (the cell's PYTHONHASHSEED),
insertion order of every bucket (recorded in the case), hash collisions (int pools colliding modulo 8/32), and
derivation routes (projection, unification, file round trip on the simulated filesystem, renaming).
Oracle: multiset-of-rankings model computed from what the two objects contain.
"""
from .. import gen, model
from ..lib import build_dataset, call, canon_rankings, exc_label, Element, Dataset
from ..simfs import SimFS
from ..seed import digest

ID = "C17"
ENVS = ["absent"]
RUNS = {"quick": 96000, "thorough": 960000}
RULE = ("case = (base dataset with insertion orders, 4-8 variants: equal-by-construction rebuilds and near-misses) in a "
        "cell with its own hash seed; distinct = distinct case digest; non-trivial = at least one pair with a "
        "multi-element bucket or several rankings was compared in both directions")
LEVEL_TEXT = ("seeded search over datasets x rebuild routes x insertion orders x hash seeds; a == b is compared with "
              "multiset equality of the rankings the two objects contain, plus reflexivity, symmetry and consistency "
              "with ranking equality")
ASSUMPTIONS = ["equality oracle = collections.Counter over tuples of frozensets of (typed) element values"]
EXPECTED_PROBES = ["equal_pairs", "unequal_pairs", "collision_pool", "reordered_bucket", "near_miss", "derived_route",
                   "near_miss_same_summaries",
                   "edited_in_place"]
STATES_MEASURE = "distinct (variant kind, expected verdict, observed verdict) triples"


def _all_elems(rk):
    out = []
    for r in rk:
        for b in r:
            for e in b:
                if e not in out:
                    out.append(e)
    return out


def gen_case(st, tier, env):
    w, k = st.workload, st.knobs
    base = gen.gen_dataset(w, n_max=7, m_max=5, allow_empty=k.random() < 0.3)
    rk = base["rankings"]
    variants = []
    for _ in range(k.choice([4, 6, 8])):
        kind = w.choice(["permute", "reinsertion", "reinsertion", "reverse_buckets", "as_elements", "rename",
                         "sub_problem_all", "unified", "file", "move_element", "split_bucket", "merge_buckets",
                         "multiplicity", "swap_buckets", "replace_element", "blank_name", "comma_name", "self",
                         "edit_in_place", "edit_in_place", "twin_name", "respell", "exchange_positions",
                         "exchange_positions", "swap_names"])
        new = [[list(b) for b in r] for r in rk]
        spec = dict(base)
        v = {"kind": kind}
        if kind == "permute":
            w.shuffle(new)
        elif kind == "reinsertion":
            for r in new:
                for b in r:
                    w.shuffle(b)
            if w.random() < 0.5:
                w.shuffle(new)
        elif kind == "reverse_buckets":
            for r in new:
                for b in r:
                    b.reverse()
        elif kind == "as_elements":
            spec["as_elements"] = not base.get("as_elements", False)
        elif kind == "rename":
            spec["name"] = w.choice(["x", "other name", ""])
        elif kind in ("sub_problem_all", "unified", "file", "self"):
            v["derive"] = kind
        elif kind == "edit_in_place":
            # history: compare first (whatever equality caches is filled), then one side is edited in place by a
            # mutator, then compared again; the verdict must follow the contents
            v["edit"] = {"side": w.choice(["a", "b", "both"]),
                         "op": w.choice(["remove_empty_rankings", "remove_empty_rankings", "remove_elements",
                                         "remove_rate"]),
                         "pick": w.randrange(64), "rate": w.choice([0.0, 0.3, 0.6])}
            if w.random() < 0.5:
                new.insert(w.randrange(len(new) + 1), [])
        elif kind == "move_element":
            cand = [(i, j) for i, r in enumerate(new) for j, b in enumerate(r) if len(r) > 1]
            if cand:
                i, j = w.choice(cand)
                e = new[i][j].pop(w.randrange(len(new[i][j])))
                j2 = j + 1 if j + 1 < len(new[i]) else j - 1
                new[i][j2].append(e)
                new[i] = [b for b in new[i] if b]
        elif kind == "split_bucket":
            cand = [(i, j) for i, r in enumerate(new) for j, b in enumerate(r) if len(b) > 1]
            if cand:
                i, j = w.choice(cand)
                b = new[i][j]
                cut = w.randint(1, len(b) - 1)
                new[i][j:j + 1] = [b[:cut], b[cut:]]
        elif kind == "merge_buckets":
            cand = [(i, j) for i, r in enumerate(new) for j in range(len(r) - 1)]
            if cand:
                i, j = w.choice(cand)
                new[i][j:j + 2] = [new[i][j] + new[i][j + 1]]
        elif kind == "multiplicity":
            i = w.randrange(len(new))
            if w.random() < 0.5 and len(new) > 1:
                del new[i]
            else:
                new.append([list(b) for b in new[i]])
        elif kind == "swap_buckets":
            cand = [(i, j) for i, r in enumerate(new) for j in range(len(r) - 1)]
            if cand:
                i, j = w.choice(cand)
                new[i][j], new[i][j + 1] = new[i][j + 1], new[i][j]
        elif kind == "exchange_positions":
            # a near-miss that keeps every summary a shortcut could compare: one element exchanges its bucket index
            # between two rankings (same universe, same sizes, same number of buckets per ranking, same multiset of
            # positions per element), so only the joint content of the rankings tells the two datasets apart
            cand = []
            for i in range(len(new)):
                for k2 in range(len(new)):
                    if i >= k2:
                        continue
                    for a_, ba in enumerate(new[i]):
                        for b_, bb in enumerate(new[k2]):
                            if a_ != b_ and len(ba) > 1 and len(bb) > 1 and a_ < len(new[k2]) and b_ < len(new[i]):
                                cand += [(i, k2, a_, b_, x) for x in ba if x in bb]
            if cand:
                i, k2, a_, b_, x = w.choice(cand)
                new[i][a_].remove(x)
                new[i][b_].append(x)
                new[k2][b_].remove(x)
                new[k2][a_].append(x)
            else:
                kind = v["kind"] = "swap_names"
        if kind == "swap_names":
            # two names exchanged in some of the rankings (possibly all): shapes are untouched
            els = _all_elems(new)
            if len(set(map(repr, els))) > 1 and new:
                x = w.choice(els)
                y = w.choice([e for e in els if repr(e) != repr(x)])
                which = [i for i in range(len(new)) if w.random() < 0.5] or [w.randrange(len(new))]
                if w.random() < 0.25:
                    which = list(range(len(new)))
                for i in which:
                    new[i] = [[y if e == x and type(e) is type(x) else x if e == y and type(e) is type(y) else e
                               for e in b] for b in new[i]]
        elif kind == "replace_element":
            els = _all_elems(new)
            if els:
                e = w.choice(els)
                repl = (max([x for x in els if isinstance(x, int)] + [0]) + 8) if isinstance(e, int) else str(e) + "x"
                new = [[[repl if x == e else x for x in b] for b in r] for r in new]
        elif kind == "respell":
            # every name is integer-like: 7, "7" and "07" spell the same element, so the respelled copy is equal
            els = _all_elems(new)
            if els and all((isinstance(x, int) and not isinstance(x, bool) and x >= 0) or
                           (isinstance(x, str) and x.isdigit()) for x in els):
                def sp(x):
                    v0 = int(x)
                    r0 = w.random()
                    return v0 if r0 < 0.4 else str(v0) if r0 < 0.8 else "0" + str(v0)
                new = [[[sp(x) for x in b] for b in r] for r in new]
        elif kind == "twin_name":
            # a str dataset (it has a non integer-like name) where "7" and "07" are two different elements
            strs = [e for e in _all_elems(new) if isinstance(e, str) and not e.isdigit()]
            if strs:
                twin_a, twin_b = w.choice([("7", "07"), ("12", "012"), ("3", "003")])
                e = w.choice(_all_elems(new))
                if e not in strs or len(strs) > 1:
                    base_new = [[[twin_a if x == e else x for x in b] for b in r] for r in new]
                    # the base itself must carry the first twin: rebuild both sides from it
                    v["rebase"] = base_new
                    new = [[[twin_b if x == twin_a else x for x in b] for b in r] for r in base_new]
                    if w.random() < 0.3:
                        new = base_new  # control: identical
        elif kind in ("blank_name", "comma_name"):
            # strings only: names that differ only by blanks, or one name that looks like two
            strs = [e for e in _all_elems(new) if isinstance(e, str)]
            if strs:
                e = w.choice(strs)
                if kind == "blank_name":
                    repl = w.choice([" " + e, e + " ", e[:1] + " " + e[1:]])
                    new = [[[repl if x == e else x for x in b] for b in r] for r in new]
                else:
                    cand = [(i, j) for i, r in enumerate(new) for j, b in enumerate(r)
                            if len(b) > 1 and all(isinstance(x, str) for x in b)]
                    if cand:
                        i, j = w.choice(cand)
                        b = new[i][j]
                        new[i][j] = [b[0] + ", " + b[1]] + b[2:]
        spec["rankings"] = new
        v["dataset"] = spec
        variants.append(v)
    return {"base": base, "variants": variants}


def nontrivial(probes):
    return probes.get("pairs_nontrivial", 0) > 0


def run_case(case, ctx):
    oka, a = call(build_dataset, case["base"])
    if not oka:
        ctx.probe("base_refused")
        return
    ma = canon_rankings(a.rankings)
    if "collide" in case["base"].get("pool", ""):
        ctx.probe("collision_pool")
    ctx.event("base", model.canon(ma))
    # reflexive
    okr, rr = call(lambda: a == a)
    if not okr or rr is not True:
        ctx.violate("C17/reflexive", repr(rr)[:100], True, {"kind": "self"}, "a == a")
    for v in case["variants"]:
        kind = v["kind"]
        okb, b = call(build_dataset, v["dataset"])
        if not okb:
            ctx.probe("variant_refused")
            continue
        a_base, ma_base = a, ma
        if v.get("rebase"):
            okr2, a2 = call(build_dataset, dict(case["base"], rankings=v["rebase"]))
            if not okr2:
                continue
            a, ma = a2, canon_rankings(a2.rankings)
            ctx.probe("twin_names")
        d = v.get("derive")
        if d:
            ctx.probe("derived_route")
            if d == "sub_problem_all":
                okd, b = call(b.sub_problem_from_elements, set(b.universe))
            elif d == "unified":
                okd, b = call(b.unified_dataset)
            elif d == "file":
                fs = SimFS()
                fs.install()
                try:
                    okd, _ = call(b.write, "eq.txt")
                    if okd:
                        okd, b = call(Dataset.from_file, "eq.txt")
                finally:
                    fs.uninstall()
            else:
                okd = True
            if not okd:
                ctx.probe("derive_failed")
                continue
        a_cur = a
        if v.get("edit"):
            ed = v["edit"]
            a_cur = build_dataset(case["base"])  # a private copy of the base: the edit must not leak to later variants
            call(lambda: a_cur == b)
            call(lambda: b == a_cur)
            for side, obj in (("a", a_cur), ("b", b)):
                if ed["side"] not in (side, "both"):
                    continue
                if ed["op"] == "remove_empty_rankings":
                    call(obj.remove_empty_rankings)
                elif ed["op"] == "remove_rate":
                    call(obj.remove_elements_rate_presence_lower_than, ed["rate"])
                else:
                    u = sorted(obj.universe, key=lambda e: str(e))
                    if len(u) > 1:
                        call(obj.remove_elements, {u[ed["pick"] % len(u)]})
            ctx.probe("edited_in_place")
        ma_cur = canon_rankings(a_cur.rankings)
        mb = canon_rankings(b.rankings)
        expected = model.multiset(ma_cur) == model.multiset(mb)
        if not v.get("derive") and not v.get("edit"):
            # both sides come straight from specs: the verdict is taken from the reference normalisation of the raw
            # names (7, "7", "07" are one element when every name is integer-like), not from what the library built
            spec_a = v.get("rebase") or case["base"]["rankings"]
            expected = model.multiset(model.normalise(spec_a)) == model.multiset(model.normalise(v["dataset"]["rankings"]))
            ctx.probe("verdict_from_specs")
        if kind in ("reinsertion", "reverse_buckets") and any(len(bk) > 1 for r in ma for bk in r):
            ctx.probe("reordered_bucket")
        if kind in ("move_element", "split_bucket", "merge_buckets", "multiplicity", "swap_buckets", "replace_element",
                    "blank_name", "comma_name", "exchange_positions", "swap_names") and not expected:
            ctx.probe("near_miss")
            if kind in ("exchange_positions", "swap_names"):
                ctx.probe("near_miss_same_summaries")
        if len(ma) > 1 or any(len(bk) > 1 for r in ma for bk in r):
            ctx.probe("pairs_nontrivial")
        ctx.probe("equal_pairs" if expected else "unequal_pairs")
        a_saved, a = a, a_cur
        ma_saved, ma = ma, ma_cur
        ok1, ab = call(lambda: a == b)
        ok2, ba = call(lambda: b == a)
        ctx.event("pair", kind, expected, repr(ab)[:10], repr(ba)[:10])
        ctx.state([kind, expected, repr(ab)[:10]])
        t = {"kind": kind, "expected_equal": expected, "etype": "int" if all(isinstance(e, int) for e in
                                                                              model.universe(ma)) else "str"}
        repro = dict(case, variants=[v])
        if not ok1 or not isinstance(ab, bool) or ab != expected:
            ctx.violate("C17/equality", {"a == b": repr(ab)[:100], "a": model.canon(ma), "b": model.canon(mb)},
                        {"equal": expected}, t, "a == b")
            ctx.violations[-1]["case_override"] = repro
        if ok1 and ok2 and ab != ba:
            ctx.violate("C17/symmetric", {"a == b": ab, "b == a": ba}, "same verdict both ways", t, "a == b vs b == a")
            ctx.violations[-1]["case_override"] = repro
        okn, ne = call(lambda: a != b)
        if ok1 and okn and isinstance(ab, bool) and ne != (not ab):
            ctx.violate("C17/ne-consistent", {"a == b": ab, "a != b": ne}, "a != b is not (a == b)", t, "a != b")
            ctx.violations[-1]["case_override"] = repro
        # consistent with ranking equality
        if len(a.rankings) == len(b.rankings):
            okq, same = call(lambda: all(x == y for x, y in zip(a.rankings, b.rankings)))
            if okq and same and ok1 and ab is not True:
                ctx.violate("C17/ranking-consistency", {"rankings pairwise ==": True, "a == b": repr(ab)[:50]},
                            "a == b", t, "ranking equality")
                ctx.violations[-1]["case_override"] = repro
        okn2, cmp_other = call(lambda: a == 42)
        if okn2 and cmp_other is True:
            ctx.violate("C17/equality", {"a == 42": True}, False, t, "a == 42")
        a, ma = a_base, ma_base
