"""C06 - ParCons: the partition admits an optimal consensus; the optimality flag is truthful.

Simulator dimensions: cplex environment (who solves a component: stand-in CPLEX peer, or nobody when CPLEX is
absent), the auxiliary algorithm observed through a spy peer (delegation is an event, not a guess), RNG schedule
when the auxiliary is KwikSort. Oracle: brute-force minimiser set.
"""
from .. import gen, model
from ..lib import (build_dataset, build_scheme, canon_ranking, jsonable_ranking, call, exc_label, key_of, alg_label,
                   build_alg,
                   ConsensusFeature, OrderedPartition)
from ..seed import digest
from .common import Discard, run_alg, well_formed, dataset_tags, apply_mutation
from ..lib import canon_rankings

ID = "C06"
ENVS = ["present", "absent", "present", "broken"]
RUNS = {"quick": 8000, "thorough": 80000}
RULE = ("case = (dataset biased to sparse shapes, valid dyadic scheme, ParCons configurations (bound, spied auxiliary, "
        "RNG schedule) + other algorithms for the flag clause); distinct = distinct case digest; non-trivial = the "
        "partition has >= 2 groups or some ParCons component needed a solver / the auxiliary")
LEVEL_TEXT = ("seeded search over datasets x schemes x ParCons configurations x cplex environments; partition, consensus "
              "and flags are judged against the complete brute-force minimiser set; delegation to the auxiliary is "
              "observed through a spy peer")
ASSUMPTIONS = ["brute-force minimiser set (universes <= 7), dyadic penalties",
               "component solves are judged against the stand-in CPLEX peer; with CPLEX absent only runs whose "
               "components never reach the exact sub-solver can be judged here"]
EXPECTED_PROBES = ["partition_checked", "groups_ge2", "parcons_returned", "aux_delegated", "flag_true_checked",
                   "exact_component_solved"]
TOL = 1e-9


def gen_case(st, tier, env):
    w, k = st.workload, st.knobs
    fam = k.random()
    n_max = 6 if env == "present" else 7
    if fam < 0.2:
        ds = gen.gen_cyclic_blocks_dataset(w)  # several non-trivial components; each ILP stays small
    elif fam < 0.6:
        ds = gen.gen_sparse_dataset(w, n_max=n_max)
    else:
        ds = gen.gen_dataset(w, n_max=n_max, m_max=6, n_min=2)
    scheme = gen.gen_scheme(w, dyadic=True)
    if k.random() < 0.06:
        scheme = gen.gen_mixed_magnitude_scheme(w)
    if k.random() < 0.3 and scheme["B"][5] == scheme["T"][5]:
        scheme["B"][5] = scheme["T"][5] + 0.5
        scheme["family"] += "/B5>T5"
    pcs = []
    for _ in range(k.choice([2, 3, 4])):
        pcs.append({"alg": {"alg": "ParCons", "aux": dict(w.choice(gen.AUXILIARIES)),
                            "bound": k.choice([0, 0, 1, 2, 3, 3, 80])},
                    "sched": gen.gen_sched(st.schedule)})
    pcs.append({"alg": {"alg": "ParCons"}, "sched": gen.gen_sched(st.schedule)})
    n_univ = len({e for r in ds["rankings"] for b in r for e in b})
    others = [{"alg": gen.gen_alg(w, env, heavy_ok=n_univ <= 6), "sched": gen.gen_sched(st.schedule)}
              for _ in range(2)]
    case = {"dataset": ds, "scheme": scheme, "parcons": pcs, "others": others}
    if k.random() < 0.2:
        case["touch_then_mutate"] = gen.gen_mutation(w)  # aggregate once, edit the Dataset in place, then go on
    if k.random() < 0.3:
        # history: the same Dataset object and the same algorithm instances are asked again under a second scheme that
        # shares the B vector (possibly rescaled) but not the T vector, then under the first one again
        mult = k.choice([1, 1, 2, 0.5])
        vals = [0, 1, 2, 4, 8, 3]
        g = lambda: w.choice(vals) / 8.0
        t0, t3 = g(), g()
        case["scheme2"] = {"B": [v * mult for v in scheme["B"]], "T": [t0, t0, 0.0, t3, t3, g()],
                           "family": "sameB-otherT"}
    return case


def nontrivial(probes):
    return probes.get("groups_ge2", 0) + probes.get("exact_component_solved", 0) + probes.get("aux_delegated", 0) > 0


def _respects(vec_of, groups):
    """Every element of an earlier group strictly before every element of a later group."""
    last_max = None
    for g in groups:
        ids = [vec_of[e] for e in g]
        if last_max is not None and min(ids) <= last_max:
            return False
        last_max = max(ids) if last_max is None else max(last_max, max(ids))
    return True


def run_case(case, ctx):
    world = {"ds": build_dataset(case["dataset"]), "instances": {}}
    if case.get("touch_then_mutate"):
        warm = build_scheme(case["scheme"])
        for a0 in ({"alg": "CopelandMethod"}, {"alg": "BordaCount"}, {"alg": "ParCons", "aux": {"alg": "BordaCount"},
                                                                   "bound": 0}):
            try:
                inst, _ = _instance(world, a0, False)
                if inst is not None:
                    run_alg(a0, world["ds"], warm, None, None, alg=inst)
            except Discard:
                pass
        apply_mutation(world["ds"], case["touch_then_mutate"])
        world["mr"] = canon_rankings(world["ds"].rankings)
        ctx.probe("touched_then_mutated")
    _phase(case, ctx, world, case["scheme"])
    if case.get("scheme2"):
        ctx.probe("second_scheme_phases")
        _phase(case, ctx, world, case["scheme2"])
        _phase(case, ctx, world, case["scheme"])


def _instance(world, spec, with_spies):
    lab = alg_label(spec) + ("/spied" if with_spies else "")
    if lab not in world["instances"]:
        spies = []
        ok, alg = call(build_alg, spec, spies, with_spies)
        world["instances"][lab] = (alg if ok else None, spies)
    alg, spies = world["instances"][lab]
    for sp in spies:
        del sp.calls[:]
    return alg, spies


def _phase(case, ctx, world, scheme_spec):
    mr = world.get("mr") or model.normalise(case["dataset"]["rankings"])
    elems = model.universe(mr)
    idx = {e: i for i, e in enumerate(elems)}
    B, T = scheme_spec["B"], scheme_spec["T"]
    cost = model.ref_cost(mr, elems, B, T)
    opt, mins = model.optimum(cost, want_minimisers=True)
    tags = dataset_tags(mr, scheme_spec)
    tags["scheme_family"] = scheme_spec.get("family")
    ds = world["ds"]
    sc = build_scheme(scheme_spec)
    ctx.event("world", model.canon(mr), B, T, ctx.env, opt)

    # (a)+(b) the partition itself -----------------------------------------------------------------------
    ok, part = call(OrderedPartition.parcons_partition, ds, sc)
    groups = None
    if not ok:
        ctx.violate("C06/partition-raised", f"{exc_label(part)}: {str(part)[:160]}", "an ordered partition", tags)
    else:
        groups = [frozenset(key_of(e) for e in g) for g in part.partition]
        ctx.event("partition", [sorted(g, key=model.sort_key) for g in groups])
        ctx.state([sorted(g, key=model.sort_key) for g in groups])
        ctx.probe("partition_checked")
        if len(groups) >= 2:
            ctx.probe("groups_ge2")
        flat = [e for g in groups for e in g]
        if any(len(g) == 0 for g in groups) or len(flat) != len(set(flat)) or set(flat) != set(elems):
            ctx.violate("C06/not-a-partition", [sorted(g, key=model.sort_key) for g in groups],
                        "non-empty disjoint groups covering the universe", tags)
            groups = None
        elif mins is not None:
            if not any(_respects(dict(zip(elems, v)), groups) for v in mins):
                ctx.violate("C06/partition-excludes-every-optimum", [sorted(g, key=model.sort_key) for g in groups],
                            {"optimum": opt, "n_minimisers": len(mins),
                             "one_minimiser": jsonable_ranking(model.vec_to_ranking(mins[0], elems))}, tags)

    cplex_stats = None
    if ctx.env == "present":
        import cplex
        cplex_stats = cplex.STATS

    def flag_clause(out, t, repro):
        """(d) necessarily optimal => global minimiser."""
        cons = out.cons
        ok2, flag = call(lambda: cons.necessarily_optimal)
        if not ok2 or not flag:
            return bool(ok2 and flag)
        ctx.probe("flag_true_checked")
        for r in cons.consensus_rankings:
            cr = canon_ranking(r)
            s = model.ref_score(cr, mr, B, T)
            if s > opt + TOL:
                ctx.violate("C06/flagged-optimal-but-not", {"ranking": jsonable_ranking(cr), "score": s},
                            {"optimum": opt}, t, out.label)
                ctx.violations[-1]["case_override"] = repro
        return True

    # (c)+(d)+(e) ParCons -------------------------------------------------------------------------------
    for pc in case["parcons"]:
        solves0 = (cplex_stats["solves"] + cplex_stats["populates"]) if cplex_stats else 0
        try:
            inst, inst_spies = _instance(world, pc["alg"], True)
            if inst is None:
                continue
            out = run_alg(pc["alg"], ds, sc, True, pc["sched"], alg=inst)
            out.spies = inst_spies
        except Discard:
            ctx.probe("discarded_stub_capacity")
            continue
        ctx.event("parcons", out.label, out.brief(), out.picks, [len(s.calls) for s in out.spies])
        t = dict(tags, alg="ParCons", bound=pc["alg"].get("bound"), env=ctx.env,
                 aux=(pc["alg"].get("aux") or {}).get("alg"))
        repro = dict(case, parcons=[dict(pc, sched={"draws": out.picks, "fallback": "first", "seed": 0})], others=[])
        if out.kind != "returned":
            ctx.probe("parcons_" + out.kind)
            continue  # refusals/crashes: C14's business
        ctx.probe("parcons_returned")
        if cplex_stats and cplex_stats["solves"] + cplex_stats["populates"] > solves0:
            ctx.probe("exact_component_solved")
        wf = well_formed(out.cons, mr, True)
        if wf:
            # a consensus that is not a ranking of the universe cannot place the groups of the partition
            ctx.probe("malformed_parcons")
            ctx.violate("C06/consensus-ignores-partition", wf[0]["observed"],
                        "a ranking of the universe that places every earlier group before every later group",
                        dict(t, what=wf[0]["what"]), out.label)
            ctx.violations[-1]["case_override"] = repro
            continue
        cr = canon_ranking(out.cons.consensus_rankings[0])
        ctx.event("result", jsonable_ranking(cr))
        if groups is not None:
            if not _respects(model.bucket_of(cr), groups):
                ctx.violate("C06/consensus-ignores-partition", jsonable_ranking(cr),
                            [sorted(g, key=model.sort_key) for g in groups], t, out.label)
                ctx.violations[-1]["case_override"] = repro
            wp = out.cons.features.get(ConsensusFeature.WEAK_PARTITIONING)
            okw, wpc = call(lambda: [frozenset(key_of(e) for e in g) for g in wp])
            if not okw or wpc != groups:
                ctx.violate("C06/reported-partition", repr(wp)[:300], [sorted(g, key=model.sort_key) for g in groups],
                            t, out.label)
                ctx.violations[-1]["case_override"] = repro
        flagged = flag_clause(out, t, repro)
        delegated = sum(len(s.calls) for s in out.spies)
        if out.spies:
            if delegated:
                ctx.probe("aux_delegated")
            ctx.probe("flag_iff_checked")
            if flagged != (delegated == 0):
                ctx.violate("C06/flag-vs-delegation", {"necessarily_optimal": flagged, "auxiliary_calls": delegated},
                            "flag set exactly when no component was delegated to the auxiliary", t, out.label)
                ctx.violations[-1]["case_override"] = repro
        elif pc["alg"].get("bound") is None and not flagged:
            # default bound 80 > universe: nothing can have been delegated
            ctx.violate("C06/flag-vs-delegation", {"necessarily_optimal": False, "bound": 80, "n": len(elems)},
                        "flag set when no component exceeds the exact bound", t, out.label)
            ctx.violations[-1]["case_override"] = repro
        ctx.schedules.add(digest([out.label, out.picks]))

    # (d) for any other algorithm -------------------------------------------------------------------------
    for oc in case["others"]:
        try:
            inst, _ = _instance(world, oc["alg"], False)
            if inst is None:
                continue
            out = run_alg(oc["alg"], ds, sc, True, oc["sched"], alg=inst)
        except Discard:
            ctx.probe("discarded_stub_capacity")
            continue
        ctx.event("other", out.label, out.brief(), out.picks)
        if out.kind != "returned" or well_formed(out.cons, mr, False):
            continue
        t = dict(tags, alg=oc["alg"]["alg"], env=ctx.env)
        flag_clause(out, t, dict(case, parcons=[], others=[dict(oc, sched={"draws": out.picks, "fallback": "first",
                                                                           "seed": 0})]))
