"""C20 - random dataset generators deliver valid datasets of the requested shape.

Simulator dimension: the RNG schedule. Every randint/shuffle of the Markov walk is a scheduler decision; the
dense-bucket-numbering invariant is checked after every single Markov step (monitor wrapped around the
name-mangled step functions from outside), and the delivered objects are checked against a shape model.
"""
import numpy as np

from .. import sched
from ..lib import call, Ranking, Dataset, EmptyDatasetException, key_of, exc_label, canon_ranking, jsonable_ranking
from ..seed import digest

ID = "C20"
ENVS = ["absent"]
RUNS = {"quick": 128000, "thorough": 1280000}
RULE = ("case = (generator entry point, n, m, steps, complete, RNG schedule policy+seed); distinct = distinct case "
        "digest; non-trivial = at least one Markov step or one shuffle decision was taken")
LEVEL_TEXT = ("seeded search over (n, m, steps, complete) x random walks decided draw by draw by the simulator's "
              "scheduler (uniform, biased toward one move kind, degenerate first/last policies); invariant monitor "
              "after every Markov step plus end-of-run shape oracle")
ASSUMPTIONS = ["the per-step monitor wraps Ranking._Ranking__step_element_(in)complete; if those names disappear the "
               "check degrades to the end-of-run oracle (reported by probe step_monitor_missing)"]
EXPECTED_PROBES = ["steps_monitored", "empty_dataset_exception", "complete_ok", "uniform_ok"]
STATES_MEASURE = "distinct bucket-id vectors visited by the walks"

STEP_NAMES = ("_Ranking__step_element_incomplete", "_Ranking__step_element_complete")


def gen_case(st, tier, env):
    k = st.knobs
    kind = k.choice(["generate_rankings", "generate_rankings", "markov_dataset", "markov_dataset",
                     "uniform_permutations", "uniform_dataset"])
    n = k.randint(1, 8) if tier == "quick" or k.random() < 0.8 else k.randint(9, 14)
    m = k.randint(1, 5) if k.random() < 0.94 else k.randint(6, 200)  # the statement says "every number of rankings"
    steps = k.choice([0, 1, 2, 5, 20, 200, 10 * n, 3 * n])
    if k.random() < 0.012:
        # integer-width corners of the bucket-id vector: a few hundred elements, few short walks
        n, m, steps = k.choice([127, 128, 129, 130, 200, 255, 256, 257, 300]), k.randint(1, 2), k.choice([0, 1, 5])
    if m > 5:  # many rankings: keep each walk short
        n, steps = min(n, 5), k.choice([0, 1, 5, 10])
    complete = k.random() < 0.5
    pol = k.choice(["uniform", "uniform", "uniform", "bias1", "bias2", "bias3", "bias4", "bias5", "bias5", "first",
                    "last", "mid", "alt"])
    return {"kind": kind, "n": n, "m": m, "steps": steps, "complete": complete,
            "sched": {"draws": [], "fallback": pol, "seed": st.schedule.getrandbits(32)}}


def nontrivial(probes):
    return probes.get("steps_monitored", 0) + probes.get("shuffle_draws", 0) > 0


def _check_vector(vec, missing, complete, n):
    """Dense numbering: non-negative entries are exactly {0..k-1}; -1 exactly for the missing elements."""
    vals = [int(v) for v in vec]
    if len(vals) != n:
        return f"vector length {len(vals)} != {n}"
    if any(v < -1 for v in vals):
        return f"entry below -1 in {vals}"
    used = sorted(set(v for v in vals if v >= 0))
    if used != list(range(len(used))):
        return f"bucket ids not dense (gap or empty bucket): {vals}"
    neg = {i for i, v in enumerate(vals) if v == -1}
    if complete:
        if neg:
            return f"unranked element in complete mode: {vals}"
    elif missing is not None and neg != set(missing):
        return f"-1 entries {sorted(neg)} differ from missing_elements {sorted(missing)}: {vals}"
    return None


def run_case(case, ctx):
    n, m, steps, complete, kind = case["n"], case["m"], case["steps"], case["complete"], case["kind"]
    s = sched.Sched.from_spec(case["sched"])
    visited = set()
    last = {"alea": None}
    step_bad = []
    final_vectors = {}

    def obs(site, arg, pick):
        if site == "randint" and arg[0] == 1:
            last["alea"] = arg[0] + pick
        if site == "shuffle":
            ctx.probe("shuffle_draws")

    originals = {}

    def wrap(name, is_complete):
        orig = getattr(Ranking, name)

        def monitored(ranking, elem, *rest):
            before = tuple(int(v) for v in ranking)
            res = orig(ranking, elem, *rest)
            after = tuple(int(v) for v in ranking)
            missing = rest[0] if rest else None
            ctx.probe("steps_monitored")
            ctx.probe("move_%s_%s" % (last["alea"], "fired" if before != after else "noop"))
            visited.add(after)
            final_vectors[ranking.__array_interface__["data"][0]] = after
            err = _check_vector(after, missing, is_complete, n)
            if err and len(step_bad) < 3:
                step_bad.append({"before": list(before), "elem": int(elem), "alea": last["alea"], "after": list(after),
                                 "error": err, "step_no": ctx.probes.get("steps_monitored", 0)})
            return res
        originals[name] = Ranking.__dict__[name]
        setattr(Ranking, name, staticmethod(monitored))

    have_monitor = all(hasattr(Ranking, nm) for nm in STEP_NAMES)
    if have_monitor:
        wrap(STEP_NAMES[0], False)
        wrap(STEP_NAMES[1], True)
    else:
        ctx.probe("step_monitor_missing")
    sched.draw_observers.append(obs)
    sched.set_current(s)
    try:
        if kind == "generate_rankings":
            ok, res = call(Ranking.generate_rankings, n, m, steps, complete)
        elif kind == "markov_dataset":
            ok, res = call(Dataset.get_random_dataset_markov, n, m, steps, complete)
        elif kind == "uniform_permutations":
            ok, res = call(Ranking.uniform_permutations, n, m)
        else:
            ok, res = call(Dataset.get_uniform_permutation_dataset, n, m)
    finally:
        sched.set_current(None)
        sched.draw_observers.remove(obs)
        for name, o in originals.items():
            setattr(Ranking, name, o)
    picks = s.picks()
    ctx.schedules.add(digest([kind, n, m, steps, complete, picks]))
    for v in visited:
        ctx.state(list(v))
    repro = dict(case, sched={"draws": picks, "fallback": "first", "seed": 0})

    def bad(clause, observed, expected):
        ctx.violate(clause, observed, expected, {"kind": kind, "complete": complete}, kind)
        ctx.violations[-1]["case_override"] = repro

    for sb in step_bad:
        bad("C20/step-invariant", sb, "dense bucket ids 0..k-1, -1 exactly for missing elements")
    markov = kind in ("generate_rankings", "markov_dataset")
    if not ok:
        ctx.event(kind, "raised", exc_label(res))
        all_empty = bool(final_vectors) and all(all(v == -1 for v in vec) for vec in final_vectors.values()) \
            and len(final_vectors) == m
        if isinstance(res, EmptyDatasetException) and kind == "markov_dataset" and not complete and \
                (all_empty or not have_monitor):
            ctx.probe("empty_dataset_exception")
            return
        bad("C20/raised", f"{exc_label(res)}: {str(res)[:200]}",
            "a dataset/list of rankings (only EmptyDatasetException when incomplete generation emptied every ranking)")
        return
    rankings = list(res.rankings) if isinstance(res, Dataset) else list(res)
    canon = [canon_ranking(r) for r in rankings]
    ctx.event(kind, [jsonable_ranking(r) for r in canon])
    lo, hi = (0, n - 1) if markov else (1, n)
    for i, r in enumerate(canon):
        seen = set()
        for b in r:
            if len(b) == 0:
                bad("C20/shape", {"ranking": i, "value": jsonable_ranking(r)}, "no empty bucket")
            for e in b:
                if not isinstance(e, int) or isinstance(e, bool) or not lo <= e <= hi:
                    bad("C20/shape", {"ranking": i, "element": repr(e)}, f"integer elements in {lo}..{hi}")
                if e in seen:
                    bad("C20/shape", {"ranking": i, "element": e}, "disjoint buckets")
                seen.add(e)
        # the views of the delivered Ranking object agree with its buckets (C16 territory, cheap to confirm here)
        if markov and complete or not markov:
            if len(seen) != n:
                bad("C20/complete", {"ranking": i, "value": jsonable_ranking(r)}, f"all {n} elements ranked")
        if not markov and any(len(b) != 1 for b in r):
            bad("C20/uniform", {"ranking": i, "value": jsonable_ranking(r)}, "a permutation without ties")
    if (markov and complete) or not markov:
        if len(rankings) != m:
            bad("C20/count", len(rankings), f"exactly {m} rankings")
        if isinstance(res, Dataset):
            if not res.is_complete:
                bad("C20/flag", "is_complete == False", "dataset flagged complete")
            if res.nb_rankings != m or res.nb_elements != n:
                bad("C20/count", {"nb_rankings": res.nb_rankings, "nb_elements": res.nb_elements},
                    {"nb_rankings": m, "nb_elements": n})
            if not markov and not res.without_ties:
                bad("C20/flag", "without_ties == False", "uniform permutation dataset is tie-free")
        ctx.probe("complete_ok" if markov else "uniform_ok")
    else:
        if len(rankings) > m:
            bad("C20/count", len(rankings), f"at most {m} rankings")
        ctx.probe("incomplete_ok")
        if len(rankings) < m:
            ctx.probe("ranking_emptied")
    # the walk's last vectors and the delivered buckets tell the same story
    if have_monitor and markov and steps > 0 and final_vectors:
        want = set()
        for vec in final_vectors.values():
            nb = max(vec) + 1
            if nb > 0:
                want.add(tuple(frozenset(i for i, v in enumerate(vec) if v == b) for b in range(nb)))
        if not want <= set(canon):
            bad("C20/conversion", [jsonable_ranking(r) for r in canon],
                "every non-empty final bucket-id vector delivered as its buckets")
