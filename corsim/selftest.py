"""Self-tests that gate the checks (DESIGN.md 3.8).

determinism : every run seed executed in different processes, with the driver under two PYTHONHASHSEEDs and at two
              worker counts; all run digests must agree pairwise.
sensitivity : a scratch copy of /repo/corankco under a fresh mktemp directory, one planted fault at a time, each
              expected to make the named check fail; the copy is deleted afterwards.
stub        : the stand-in cplex solver is cross-checked against real CBC on the models the library built.
"""
import json
import os
import shutil
import subprocess
import sys
import tempfile
import time

from . import driver, runner

PLANTS = [
    # (name, property expected to fail, file, old text, new text)
    ("kwiksort-before-after-swapped", "C11", "corankco/algorithms/kwiksort/kwiksortrandom.py",
     "        if cost_before <= cost_after:\n            return -1\n        return 1",
     "        if cost_before <= cost_after:\n            return 1\n        return -1"),
    ("markov-add-right-ge", "C20", "corankco/ranking.py",
     "            ranking[ranking > bucket_elem] += 1\n            ranking[elem] = bucket_elem + 1",
     "            ranking[ranking >= bucket_elem] += 1\n            ranking[elem] = bucket_elem + 1"),
    ("pulp-tie-variable-costs-after", "C05", "corankco/algorithms/exact/exactalgorithmpulp.py",
     "                        my_values.append(cost_matrix[i][j][2])",
     "                        my_values.append(cost_matrix[i][j][1])"),
    ("parcons-flag-stays-true", "C06", "corankco/algorithms/parcons/parcons.py",
     "set_current_elements))\n                    optimal = False",
     "set_current_elements))"),
    ("cost-table-mirror-tied", "C04", "corankco/algorithms/pairwisebasedalgorithm.py",
     "            matrix[elem2][elem1][2] = cost_elem1_elem2[2]",
     "            matrix[elem2][elem1][2] = cost_elem1_elem2[0]"),
    ("unified-rankings-alias", "C15", "corankco/dataset.py",
     "            buckets: List[Set[Element]] = [set(bucket) for bucket in ranking]",
     "            buckets: List[Set[Element]] = ranking.buckets"),
    ("stale-id-map", "C16", "corankco/dataset.py",
     "        self._mapping_id_element = mapping_id_element\n",
     "        self._mapping_id_element.update(mapping_id_element)\n"),
    ("eq-order-sensitive", "C17", "corankco/dataset.py",
     "        return Counter(self_rankings) == Counter(other_rankings)",
     "        return self_rankings == other_rankings"),
    ("scanner-misses-last-bucket", "C18", "corankco/utils.py",
     "        en_str = ranking.find(']', max(en_str + 1, st_str + 1), ranking_end)",
     "        en_str = ranking.find(']', max(en_str + 1, st_str + 1), ranking_end - 1)"),
    ("bioconsert-no-left-scan", "C08", "corankco/algorithms/bioconsert/bioconsert.py",
     "        i = bucket_elem - 2\n        if i >= -1 and change[i + 1] < -0.001:",
     "        i = -2\n        if i >= -1 and change[i + 1] < -0.001:"),
    ("bioconsert-single-departure", "C09", "corankco/algorithms/bioconsert/bioconsert.py",
     "        rankings_departure = bucket_ids[asarray(distinct_rankings_ids)]",
     "        rankings_departure = bucket_ids[asarray(distinct_rankings_ids[-1:])]"),
    ("borda-guard-dropped", "C14", "corankco/algorithms/borda/borda.py",
     "            raise ScoringSchemeNotHandledException\n",
     "            pass\n"),
    ("kwiksort-loses-single-before", "C03", "corankco/algorithms/kwiksort/kwiksortabs.py",
     "        if len(before) == 1:\n            consensus.append(before)\n        elif len(before) > 0:",
     "        if len(before) == 1:\n            pass\n        elif len(before) > 0:"),
]


def main(args) -> int:
    if args.what == "determinism":
        return determinism(args)
    if args.what == "sensitivity":
        return sensitivity(args)
    if args.what == "models":
        return models(args)
    if args.what == "simfs":
        return simfs_fidelity(args)
    return stub(args)


# ---------------------------------------------------------------------------------------------- determinism

def _emit(props, runs, jobs):
    out = {}
    for pid in props:
        res = driver.explore_property(pid, "quick", int(os.environ.get("VERIF_SEED", "0")), runs=runs, jobs=jobs,
                                      want_digests=True, budget_s=900)
        if res["errors"]:
            print("HARNESS-ERROR", res["errors"][0][:2000])
            return None
        d = {}
        for a in res["aggs"].values():
            d.update(a["digests"])
        out[pid] = d
    return out


def determinism(args) -> int:
    props = (args.props.split(",") if args.props else runner.PROPS)
    runs = args.runs or 208
    if os.environ.get("CORSIM_EMIT"):
        out = _emit(props, runs, int(os.environ["CORSIM_EMIT"]))
        if out is None:
            return 2
        sys.stdout.write("DIGESTS " + json.dumps(out) + "\n")
        return 0
    results = []
    for hashseed, jobs in (("1", 16), ("987654", 4)):
        env = dict(os.environ, PYTHONHASHSEED=hashseed, CORSIM_EMIT=str(jobs))
        t0 = time.monotonic()
        p = subprocess.run([sys.executable, "-m", "corsim", "selftest", "determinism", "--props", ",".join(props),
                            "--runs", str(runs)], env=env, cwd=driver.VERIF, capture_output=True, text=True)
        line = [ln for ln in p.stdout.split("\n") if ln.startswith("DIGESTS ")]
        if p.returncode != 0 or not line:
            print("HARNESS-ERROR: emitter failed", p.stdout[-2000:], p.stderr[-2000:])
            return 2
        results.append(json.loads(line[0][8:]))
        print(f"driver PYTHONHASHSEED={hashseed} jobs={jobs}: done in {time.monotonic() - t0:.1f}s")
    bad = 0
    for pid in props:
        a, b = results[0][pid], results[1][pid]
        diff = [k for k in a if a[k] != b.get(k)]
        print(f"{pid}: {len(a)} run digests compared, {len(diff)} differ" + (f" e.g. run {diff[:5]}" if diff else ""))
        bad += len(diff) + (len(a) != len(b))
    print("DETERMINISM", "OK" if not bad else "BROKEN")
    return 0 if not bad else 1


# ---------------------------------------------------------------------------------------------- sensitivity

def sensitivity(args) -> int:
    only = set(args.only.split(",")) if args.only else None
    failures = 0
    for name, pid, rel, old, new in PLANTS:
        if only and name not in only and pid not in only:
            continue
        scratch = tempfile.mkdtemp(prefix="corsim-plant-")
        try:
            shutil.copytree(os.path.join(driver.REPO, "corankco"), os.path.join(scratch, "corankco"),
                            ignore=shutil.ignore_patterns("__pycache__"))
            path = os.path.join(scratch, rel)
            src = open(path, encoding="utf-8").read()
            if src.count(old) != 1:
                print(f"PLANT {name}: anchor text found {src.count(old)} times - plant needs re-anchoring")
                failures += 1
                continue
            open(path, "w", encoding="utf-8").write(src.replace(old, new))
            t0 = time.monotonic()
            p = subprocess.run([sys.executable, "-m", "corsim", "check", pid, "--tier", "quick", "--repo", scratch,
                                "--no-evidence", "--minimise-s", "20"], cwd=driver.VERIF, capture_output=True,
                               text=True, env=dict(os.environ, PYTHONHASHSEED="0"))
            caught = p.returncode == 1 and f"VIOLATION property={pid}" in p.stdout
            clause = [ln.strip() for ln in p.stdout.split("\n") if ln.strip().startswith("clause=")]
            print(f"PLANT {name}: expected {pid} to fail -> {'CAUGHT' if caught else 'MISSED rc=%d' % p.returncode} "
                  f"in {time.monotonic() - t0:.0f}s {clause[0].split()[0] if clause else ''}")
            if not caught:
                failures += 1
                print(p.stdout[-1500:])
        finally:
            shutil.rmtree(scratch, ignore_errors=True)
    print("SENSITIVITY", "OK" if not failures else f"{failures} plant(s) missed")
    return 0 if not failures else 1


# ---------------------------------------------------------------------------------------------- stub cross-check

def stub(args) -> int:
    """Run C05 worlds in a `present` cell and re-solve every model the stand-in received with real CBC."""
    cell = driver.Cell({"index": 0, "hashseed": 7, "env": "present"})
    try:
        cell.send({"cmd": "stubcheck", "n": args.runs or 150})
        msg = cell._read(600)
    finally:
        cell.close()
    print(json.dumps(msg))
    return 0 if msg.get("mismatches") == 0 and msg.get("models", 0) > 0 else 1


# ---------------------------------------------------------------------------------------------- reference models

def models(args) -> int:
    """Internal consistency of the oracles (no code under test involved): the double-sum scorer agrees with the
    cost-table scorer; the subset DP agrees with brute force; the enumeration of rankings with ties has the
    Fubini cardinalities; every neighbour differs from its origin by exactly one element's placement."""
    import random
    import numpy as np
    from . import gen, model
    r = random.Random(int(os.environ.get("VERIF_SEED", "0")) + 99)
    bad = 0
    fub = [1, 1, 3, 13, 75, 541, 4683, 47293]
    for n, want in enumerate(fub):
        got = len(model.weak_orders(n))
        if got != want:
            print(f"weak_orders({n}) = {got}, expected {want}")
            bad += 1
    for t in range(args.runs or 300):
        spec = gen.gen_dataset(r, n_max=6, m_max=5)
        sch = gen.gen_scheme(r, dyadic=True)
        mr = model.normalise(spec["rankings"])
        elems = model.universe(mr)
        cost = model.ref_cost(mr, elems, sch["B"], sch["T"])
        wo, sc = model.score_all(cost)
        i = r.randrange(len(wo))
        cand = model.vec_to_ranking([int(v) for v in wo[i]], elems)
        s1 = model.ref_score(cand, mr, sch["B"], sch["T"])
        s2 = model.score_from_cost(model.ranking_to_vec(cand, elems), cost)
        if abs(s1 - s2) > 1e-12 or abs(s1 - float(sc[i])) > 1e-12:
            print("scorers disagree", s1, s2, float(sc[i]))
            bad += 1
        if abs(model.opt_value_dp(cost) - float(sc.min())) > 1e-12:
            print("DP and brute force disagree")
            bad += 1
        for x in range(len(elems)):
            for y in range(len(elems)):
                if x != y and (cost[x][y][0] != cost[y][x][1] or cost[x][y][2] != cost[y][x][2]):
                    print("reference cost table not mirror-consistent")
                    bad += 1
        for e, nb in model.neighbourhood(cand):
            moved = [k for k in elems if model.bucket_of(nb)[k] != model.bucket_of(cand)[k]]
            rest_c = tuple(b - {e} for b in cand if b - {e})
            rest_n = tuple(b - {e} for b in nb if b - {e})
            if rest_c != rest_n:
                print("neighbour changes more than one element", moved)
                bad += 1
    print("MODELS", "OK" if not bad else f"{bad} inconsistencies")
    return 0 if not bad else 1


# ---------------------------------------------------------------------------------------------- seam fidelity

def simfs_fidelity(args) -> int:
    """Differential test of the filesystem seam against the real thing: the same tree (/, /sim, /sim/cwd, /sim/data,
    one file in each of the last two) is built under a temporary root, the process moves to <root>/sim/cwd, and every
    question the library asks (isdir, isfile, abspath of join(.., pardir), listdir, open for reading / writing,
    basename, join) is put to both for a list of path spellings including the awkward ones ("", ".", "..", trailing
    separators, missing parents, a file used as a directory). A seam that is kinder than the real system hides
    faults (seeded change C18-m12 was invisible while isdir("") was answered "yes")."""
    import shutil
    import tempfile
    from .simfs import SimFS
    root = os.path.realpath(tempfile.mkdtemp(prefix="corsim-simfs-"))
    old = os.getcwd()
    bad = 0
    n = 0
    try:
        for d in ("sim/cwd", "sim/data"):
            os.makedirs(os.path.join(root, d))
        for f in ("sim/cwd/here.txt", "sim/data/there.txt"):
            with open(os.path.join(root, f), "w") as fh:
                fh.write("[{1}]\n")
        os.chdir(os.path.join(root, "sim/cwd"))
        fs = SimFS()
        fs.files["/sim/cwd/here.txt"] = "[{1}]\n"
        fs.files["/sim/data/there.txt"] = "[{1}]\n"

        def real_of(p):  # absolute simulated paths live under the temporary root
            return root + p if p.startswith("/") else p

        def strip(x):
            if isinstance(x, str) and x.startswith(root):
                return x[len(root):] or "/"
            return x

        def ask(fn):
            try:
                return ("ok", strip(fn()))
            except OSError as e:
                return ("err", type(e).__name__)

        paths = ["", ".", "..", "./", "here.txt", "./here.txt", "new.txt", "./new.txt", "../data", "../data/",
                 "../data/there.txt", "../data/new", "../nodir/new", "nodir/new", "here.txt/new", "here.txt/",
                 "/sim/data/d1", "/sim/data", "/sim/data/", "/sim/nodir/x", "/", "../..", "a//b", "./.",
                 "../cwd/here.txt", "/sim/cwd/../data/there.txt"]
        for p in paths:
            rp = real_of(p)
            qs = [
                ("isdir", lambda: fs.os.path.isdir(p), lambda: os.path.isdir(rp)),
                ("isfile", lambda: fs.os.path.isfile(p), lambda: os.path.isfile(rp)),
                ("parent-isdir", lambda: fs.os.path.isdir(fs.os.path.abspath(fs.os.path.join(p, fs.os.pardir))),
                 lambda: os.path.isdir(os.path.abspath(os.path.join(rp, os.pardir)))),
                ("abspath", lambda: fs.os.path.abspath(p), lambda: os.path.abspath(rp) if p else os.getcwd()),
                ("basename", lambda: fs.os.path.basename(p), lambda: os.path.basename(rp)),
                ("dirname-isdir", lambda: fs.os.path.isdir(fs.os.path.dirname(p)), lambda: os.path.isdir(os.path.dirname(rp))),
                ("listdir", lambda: sorted(fs.os.listdir(p)), lambda: sorted(os.listdir(rp))),
                ("open-r", lambda: fs.open(p, "r", encoding="utf-8").read(), lambda: open(rp, "r", encoding="utf-8").read()),
            ]
            for name, sim_q, real_q in qs:
                a, b = ask(sim_q), ask(real_q)
                n += 1
                if a != b:
                    bad += 1
                    print(f"SIMFS-MISMATCH {name}({p!r}): simulated {a} real {b}")
            # opening for writing creates the file: ask last, on both, then remove what was created
            a = ask(lambda: fs.open(p, "w", encoding="utf-8").close())
            b = ask(lambda: open(rp, "w", encoding="utf-8").close())
            n += 1
            if a[0] != b[0] or (a[0] == "err" and a[1] != b[1]):
                bad += 1
                print(f"SIMFS-MISMATCH open-w({p!r}): simulated {a} real {b}")
            for q in ("new.txt", "../data/new", "../data/d1"):
                if os.path.isfile(q):
                    os.remove(q)
                fs.files.pop(fs.norm(q), None)
            for q, txt in (("here.txt", "[{1}]\n"), ("../data/there.txt", "[{1}]\n")):
                with open(q, "w") as fh:
                    fh.write(txt)
                fs.files[fs.norm(q)] = txt
    finally:
        os.chdir(old)
        shutil.rmtree(root, ignore_errors=True)
    print(f"simfs fidelity: {n} questions on {len(paths)} path spellings, {bad} mismatches")
    # the RNG seam on the arguments where the real functions refuse: same exception class, same acceptance
    import random
    from . import sched
    sched.set_current(sched.Sched([], "first", 0))
    rn = 0
    for name, sim_f, real_f, argsets in (
            ("choice", sched.sim_choice, random.choice, ([[]], [()], [{1, 2}], [[5]], ["ab"], [{}], [None])),
            ("randint", sched.sim_randint, random.randint, ([3, 2], [2, 2], [0, -1], [-2, -1], [1, 5])),
            ("shuffle", sched.sim_shuffle, random.shuffle, ([[]], [[1]], [(1, 2)], [{1, 2}], ["ab"]))):
        for a in argsets:
            def outcome(f):
                try:
                    f(*[list(x) if isinstance(x, list) else x for x in a])
                    return "ok"
                except Exception as e:  # noqa
                    return type(e).__name__
            o_sim, o_real = outcome(sim_f), outcome(real_f)
            rn += 1
            if o_sim != o_real:
                bad += 1
                print(f"RNG-SEAM-MISMATCH {name}{tuple(a)!r}: simulated {o_sim} real {o_real}")
    sched.set_current(None)
    print(f"rng seam fidelity: {rn} edge calls, mismatches included above")
    return 0 if bad == 0 else 2
